#!/bin/bash
# usage: tools_confirm.sh <dir with patch.diff demo_test.go [notes.md]> <seeded id> <property>
# Confirms a seeded change independently in a scratch worktree: demo passes without / fails with the change,
# the repository's suite passes with it; then runs the checks against it.  Writes /verif/seeded/<id>/.
set -u
src=$(readlink -f "$1"); id=$2; prop=$3
export GOFLAGS=-mod=mod GOPROXY=off
wt=$(mktemp -d /tmp/conf_XXXXXX)
git -C /repo worktree add -q --detach "$wt" HEAD || exit 2
demo=$src/demo_test.go; [ -f "$demo" ] || demo=$src/demo_test.go.txt
cp "$demo" "$wt/zz_seeded_demo_test.go"
cd "$wt"
go test -vet=off -count=1 -run '^TestSeededDemo$' . > "$wt/.demo_without.log" 2>&1; without=$?
if ! git apply "$src/patch.diff"; then echo "RESULT $id patch-does-not-apply"; cd /; git -C /repo worktree remove --force "$wt"; exit 1; fi
go build ./... > "$wt/.build.log" 2>&1; build=$?
go test -vet=off -count=1 -run '^TestSeededDemo$' . > "$wt/.demo_with.log" 2>&1; with=$?
rm -f "$wt/zz_seeded_demo_test.go"
go test -vet=off -count=1 -timeout 25m ./... > "$wt/.suite.log" 2>&1; suite=$?
git checkout -q go.sum 2>/dev/null
cd /verif
ok=no; [ $without -eq 0 ] && [ $build -eq 0 ] && [ $with -ne 0 ] && [ $suite -eq 0 ] && ok=yes
echo "RESULT $id demo_without=$without build=$build demo_with=$with suite=$suite confirmed=$ok"
if [ $ok = yes ]; then
  mkdir -p /verif/seeded/$id
  cp "$src/patch.diff" /verif/seeded/$id/patch.diff
  cp "$demo" /verif/seeded/$id/demo_test.go
  [ -f "$src/notes.md" ] && cp "$src/notes.md" /verif/seeded/$id/notes.md
  caught=$(TIER=quick ./tools_mutant.sh "$src/patch.diff" ${CONFIRM_CHECKS:-} 2>&1 | tee /verif/seeded/$id/checks_quick.log | grep '^CAUGHT-BY:' | sed 's/CAUGHT-BY://')
  python3 - "$id" "$prop" "$caught" <<'PY'
import json,sys,subprocess
id,prop,caught=sys.argv[1],sys.argv[2],sys.argv[3].split()
head=subprocess.run(['git','-C','/repo','log','--format=%h','-1'],capture_output=True,text=True).stdout.strip()
meta={"id":id,"breaks_property":prop,"base_commit":head,
 "origin":"fresh sub-agent given only the property text and its own scratch worktree",
 "confirmed":{"demo_passes_without_change":True,"builds_with_change":True,"demo_fails_with_change":True,"repository_suite_passes_with_change":True,
   "how":"tools_confirm.sh: fresh worktree of /repo HEAD; go test -run ^TestSeededDemo$ before and after git apply; go test -vet=off -count=1 -timeout 25m ./... with the change"},
 "needs_to_manifest":"see notes.md",
 "caught_by_quick":caught}
json.dump(meta,open('/verif/seeded/%s/meta.json'%id,'w'),indent=1)
PY
  echo "RESULT $id caught_by_quick:$caught"
else
  for f in "$wt/.demo_without.log" "$wt/.demo_with.log"; do tail -n 5 "$f" | cut -c1-300; done; grep -m5 -- "--- FAIL" "$wt/.suite.log"; tail -n 3 "$wt/.suite.log"
fi
cd /; git -C /repo worktree remove --force "$wt"; rm -rf "$wt"
