#!/usr/bin/env python3
"""Builds /verif/seeded/SUMMARY.md from seeded/*/meta.json."""
import json, glob, os
rows = []
for d in sorted(glob.glob('/verif/seeded/*/')):
    mp = os.path.join(d, 'meta.json')
    if not os.path.exists(mp):
        continue
    m = json.load(open(mp))
    rows.append(m)
out = ["# Seeded changes and the checks that catch them", "",
       "Each change compiles, passes the repository's suite, breaks the named property and was confirmed in a scratch worktree",
       "(`tools_confirm.sh`); `caught by` lists the quick checks (VERIF_SEED=1) that report a violation with the change applied",
       "(`tools_mutant.sh`, scratch worktree, never /repo).  `origin` says who wrote the change.", "",
       "| id | breaks | origin | what it needs | caught by (quick) |", "|---|---|---|---|---|"]
for m in rows:
    needs = m.get('needs_short') or m.get('needs_to_manifest', '')
    out.append("| %s | %s | %s | %s | %s |" % (m['id'], m['breaks_property'], m.get('origin_short', 'sub-agent'), needs.replace('|', '/').replace('\n', ' ')[:400],
                                             ' '.join(m.get('caught_by_quick', [])) or '**none**'))
open('/verif/seeded/SUMMARY.md', 'w').write('\n'.join(out) + '\n')
print(len(rows), 'rows')
