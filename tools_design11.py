#!/usr/bin/env python3
"""Rewrites section 11 of DESIGN.md (which checks catch which seeded changes) from seeded/*/meta.json."""
import json, glob, os, re, collections

rows = []
thorough = {}
for mp in sorted(glob.glob('/verif/seeded/*/meta.json')):
    m = json.load(open(mp))
    n = m.get('needs_short') or m.get('needs_to_manifest', '')
    if n.startswith('see notes'):
        try:
            n = open(os.path.dirname(mp) + '/notes.md').readline().lstrip('# ').strip()
        except OSError:
            pass
    rows.append((m['id'], m['breaks_property'], n, m.get('caught_by_quick', []), m.get('duplicate_of')))
    if m.get('caught_by_thorough'):
        thorough[m['id']] = m['caught_by_thorough']

own = sum(1 for r in rows if r[1] in r[3])
anyc = sum(1 for r in rows if r[3])
per = collections.Counter()
for r in rows:
    for c in r[3]:
        per[c] += 1

out = []
out.append("## 11. Seeded changes: which checks catch which")
out.append("")
out.append("Every change under `seeded/<id>/` was written by a fresh sub-agent that saw only the text of one property and a scratch")
out.append("worktree (nothing from `/verif`), compiles, passes the repository's 1242 tests, breaks the property and needs something")
out.append("specific to manifest; each was re-confirmed in a scratch worktree by `tools_confirm.sh` (demo passes without / fails with")
out.append("the change, full suite green with it) before it was kept.  `tools_mutant.sh` applies a change in a scratch worktree")
out.append("(never in `/repo`) and runs the quick tier (VERIF_SEED=1) against it; `tools_reeval.py` refreshes the whole matrix.")
out.append("")
out.append("Totals: %d changes; %d caught by at least one quick check; %d caught by the check of the property they were written against." % (len(rows), anyc, own))
out.append("Changes caught per check: " + ", ".join("%s %d" % (c, per[c]) for c in sorted(per)) + ".")
out.append("")
out.append("| change | breaks | what it needs to manifest | quick checks that report it |")
out.append("|---|---|---|---|")
for i, p, n, c, dup in rows:
    n = n.replace('|', '/').replace('\n', ' ')
    if len(n) > 260:
        n = n[:257] + '...'
    th = thorough.get(i)
    out.append("| %s | %s | %s | %s |" % (i, p, n, (' '.join(c) if c else '**none**') + (' (thorough tier: %s)' % ' '.join(th) if th else '')))
out.append("")
out.append("Checks strengthened because a seeded change (or a survivor of the systematic mutation campaign, `tools_mutcampaign.py`:")
out.append("first-order operator / constant / statement-deletion mutants of the library, survivors triaged by hand) was missed at first:")
out.append("")
for l in open('/verif/seeded/STRENGTHENED.md').read().strip().split('\n'):
    out.append(l)
out.append("")
text = "\n".join(out) + "\n"

d = open('/verif/DESIGN.md').read()
marker = "## 11. Seeded changes: which checks catch which"
if marker in d:
    d = d[:d.index(marker)].rstrip() + "\n\n"
else:
    d = d.rstrip() + "\n\n---------------------------------------------------------------------------------------------------\n\n"
open('/verif/DESIGN.md', 'w').write(d + text)
print(len(rows), "rows; own", own, "any", anyc)
