package harness

// c17.go: bulk build (NewArrayFromBatchData / NewMapFromBatchData), copy of
// single-slab containers of plain values, byte slice <-> byte array conversion.
// The engine is reused as the checker: the produced container is registered as
// a root with its model and must pass every structural oracle and behave like
// any other container afterwards.

import (
	"errors"
	"fmt"

	"github.com/onflow/atree"
	"pgregory.net/rapid"
)

type BCase struct {
	Prop string   `json:"prop"`
	Kind string   `json:"kind"` // arrbatch, bytes, mapbatch, copy
	Cfg  Config   `json:"cfg"`
	Root RootSpec `json:"root"`
	N    int      `json:"n,omitempty"`
	Prog string   `json:"prog,omitempty"` // const, alt, ramp, hugeend, fill
	Z    int      `json:"z,omitempty"`
	Q    int      `json:"q,omitempty"` // fill: number of full slabs
	R    int      `json:"r,omitempty"` // fill: remainder
	Seed uint64   `json:"seed,omitempty"`
	Nest int      `json:"nest,omitempty"` // every Nest-th element is a small nested array (0 = none)
	Est  uint32   `json:"est,omitempty"`  // bytes: estimated element size argument
	Bad  string   `json:"bad,omitempty"`  // mapbatch: "", unsorted, dup ; bytes: "", wrongtype
	Src  []Op     `json:"src,omitempty"`  // mapbatch / copy: ops building the source
	Post []Op     `json:"post,omitempty"` // ops applied to source and result afterwards (independence)
}

var allOracles = Oracles{CmpEvery: 1, CheckHandles: true, Tree: true, Sizes: true, Health: true, Inline: true, Verify: true, RoundTrip: true}

func (e *Engine) adoptRoot(n *Node) {
	n.Parent = nil
	e.Roots = append(e.Roots, n)
}

func (e *Engine) fullCheck() error {
	if err := e.CompareAll(); err != nil {
		return err
	}
	if err := e.checkStructure(); err != nil {
		return err
	}
	return e.VerifyAll()
}

func runC17(bc *BCase) (*CaseStats, error) {
	cfg := bc.Cfg
	e, err := NewEngine(cfg, allOracles)
	if err != nil {
		return nil, err
	}
	st := e.Stats
	addr := addrOf(1)
	switch bc.Kind {
	case "arrbatch":
		n := bc.N
		elemClass := func(i int) *VD {
			switch bc.Prog {
			case "alt":
				if i%2 == 0 {
					return &VD{K: "s", Z: 0, N: bc.Seed + uint64(i)}
				}
				return &VD{K: "s", Z: 4, N: bc.Seed + uint64(i)}
			case "ramp":
				return &VD{K: "s", Z: 1, D: i % int(e.MaxArrElem*3/4+1), N: bc.Seed + uint64(i)}
			case "mix":
				// short streams dominated by elements near the inline limit and near a quarter slab:
				// leaves that close exactly at the target size, tails that underflow, siblings that cannot lend
				cls := []int{0, 8, 3, 4, 8, 7, 8, 2, 8, 8, 8, 3}
				h := mix64(bc.Seed*977 + uint64(i))
				if i >= n-1-int(bc.Seed%3) && bc.Seed%2 == 0 {
					return &VD{K: "u", N: uint64(i)} // tiny tail: the last leaf underflows
				}
				return &VD{K: "s", Z: cls[h%uint64(len(cls))], D: int(h>>8%7) - 3, N: bc.Seed*1000 + uint64(i)}
			case "hugeend":
				if i == n-1 {
					return &VD{K: "s", Z: 4 + bc.Z%3, N: bc.Seed}
				}
				return &VD{K: "u", N: uint64(i)}
			}
			return &VD{K: "s", Z: bc.Z, N: bc.Seed + uint64(i)}
		}
		if bc.Prog == "fill" {
			// elements of one size; n = Q full leaves + R elements
			sz := int(Str{strOf(1, e.strLen(bc.Z, 0, 1, e.MaxArrElem))}.ByteSize())
			if sz < 1 {
				sz = 1
			}
			per := (int(cfg.Slab) - 21 + sz - 1) / sz
			n = bc.Q*per + bc.R
			st.label("fill_program")
		}
		if n > 30000 {
			n = 30000
		}
		node := &Node{ID: e.nextNode, Addr: addr, TI: TI{N: 4}}
		e.nextNode++
		i := 0
		var ferr error
		a, err := atree.NewArrayFromBatchData(e.St, addr, node.TI, func() (atree.Value, error) {
			if i >= n || ferr != nil {
				return nil, nil
			}
			vd := elemClass(i)
			if bc.Prog == "fill" {
				vd = &VD{K: "s", Z: bc.Z, N: 1}
			}
			if bc.Nest > 0 && i%bc.Nest == bc.Nest-1 {
				vd = &VD{K: "arr", N: 1, L: i % 4, E: &VD{K: "u", N: uint64(i)}}
				st.label("nested_in_stream")
			}
			v, m, err := e.mk(vd, addr, e.MaxArrElem, 1)
			if err != nil {
				ferr = err
				return nil, nil
			}
			node.Elems = append(node.Elems, m)
			if c := nodeOf(m); c != nil {
				c.Parent = node
			}
			i++
			return v, nil
		})
		if ferr != nil {
			return st, ferr
		}
		if err != nil {
			return st, fmt.Errorf("NewArrayFromBatchData failed on a valid stream of %d elements: %v", n, err)
		}
		node.HA, node.Root, node.VID = a, a.SlabID(), a.ValueID()
		// nested containers created for the stream got handles from mk; they are now children of a: retire them (R1)
		for _, c := range node.Children() {
			retire(c)
		}
		e.adoptRoot(node)
		st.Add("stream_elements", n)
		if n == 0 {
			st.label("empty_stream")
		}
	case "bytes":
		data := make([]byte, bc.N)
		for i := range data {
			data[i] = byte(mix64(bc.Seed + uint64(i)))
			if bc.Z == 0 {
				data[i] %= 24 // all 3-byte storables
			}
		}
		ti := TI{N: 6}
		wide := bc.Seed%3 == 0 // every third case: the byte type whose tag head is 3 bytes long
		var a *atree.Array
		var err error
		if wide {
			a, err = atree.ByteSliceToByteArray[ByteW](e.St, addr, ti, data, bc.Est)
			st.label("wide_byte_type")
		} else {
			a, err = atree.ByteSliceToByteArray[Byte](e.St, addr, ti, data, bc.Est)
		}
		if err != nil {
			return st, fmt.Errorf("ByteSliceToByteArray failed for %d bytes: %v", len(data), err)
		}
		node := &Node{ID: e.nextNode, Addr: addr, TI: ti, HA: a, Root: a.SlabID(), VID: a.ValueID()}
		e.nextNode++
		// the model uses U64-free byte values: compare through the conversion API and Get
		var back []byte
		if wide {
			back, err = atree.ByteArrayToByteSlice[ByteW](a)
		} else {
			back, err = atree.ByteArrayToByteSlice[Byte](a)
		}
		if err != nil {
			return st, fmt.Errorf("ByteArrayToByteSlice failed: %v", err)
		}
		if string(back) != string(data) {
			return st, fmt.Errorf("byte slice -> byte array -> byte slice changes the content (%d bytes): %x vs %x", len(data), back, data)
		}
		if a.Count() != uint64(len(data)) {
			return st, fmt.Errorf("byte array has %d elements for %d bytes", a.Count(), len(data))
		}
		for _, i := range pickIdx(uint64(len(data)), bc.Seed) {
			v, err := a.Get(i)
			if err != nil {
				return st, fmt.Errorf("Get(%d) on a byte array failed: %v", i, err)
			}
			if wide {
				if b, ok := v.(ByteW); !ok || byte(b) != data[i] {
					return st, fmt.Errorf("byte array element %d is %v, expected %d", i, v, data[i])
				}
			} else if b, ok := v.(Byte); !ok || byte(b) != data[i] {
				return st, fmt.Errorf("byte array element %d is %v, expected %d", i, v, data[i])
			}
		}
		// structure: byte values are not model values, so run the structural oracles without the model comparison
		e.Roots = append(e.Roots, node)
		node.Elems = make([]MV, len(data)) // placeholders (never compared)
		w, err := e.walkRoots()
		if err != nil {
			return st, err
		}
		if err := w.encodeAll(); err != nil {
			return st, err
		}
		e.noteStructure(w)
		if err := w.checkTree(cfg.Slab); err != nil {
			return st, fmt.Errorf("byte array of %d bytes: %v", len(data), err)
		}
		if err := w.checkSizes(); err != nil {
			return st, fmt.Errorf("byte array of %d bytes: %v", len(data), err)
		}
		if err := atree.VerifyArray(a, addr, ti, CompareTI, e.CB.PlainHIP, true); err != nil {
			return st, fmt.Errorf("byte array of %d bytes rejected by the in-repo verifier: %v", len(data), err)
		}
		if err := e.checkHealth(w); err != nil {
			return st, err
		}
		if !a.IsWithinSingleSlab() {
			st.label("multi_slab")
		} else {
			st.label("single_slab_bytes")
		}
		// wrong element type is a caller mistake
		if len(data) > 0 {
			if err := a.Append(U64(7)); err != nil {
				return st, fmt.Errorf("Append to a byte array failed: %v", err)
			}
			_, err := atree.ByteArrayToByteSlice[Byte](a)
			var ute *atree.UnexpectedElementTypeError
			if err == nil || !errors.As(err, &ute) || !isUser(err) {
				return st, fmt.Errorf("ByteArrayToByteSlice over a non-byte element: expected a user UnexpectedElementTypeError, got %v", err)
			}
			if _, err := a.Remove(uint64(len(data))); err != nil {
				return st, fmt.Errorf("Remove failed: %v", err)
			}
		}
		// independence from the source slice
		for i := range data {
			data[i] ^= 0xff
		}
		var back2 []byte
		if wide {
			back2, _ = atree.ByteArrayToByteSlice[ByteW](a)
		} else {
			back2, _ = atree.ByteArrayToByteSlice[Byte](a)
		}
		if string(back2) != string(back) {
			return st, fmt.Errorf("byte array shares memory with the source slice")
		}
		st.Add("stream_elements", len(data))
		st.label("bytes_roundtrip")
		// emptying releases everything
		if err := a.PopIterate(func(atree.Storable) {}); err != nil {
			return st, fmt.Errorf("PopIterate failed: %v", err)
		}
		node.Elems = nil
		if err := e.Commit(0); err != nil {
			return st, err
		}
		if len(e.L.Regs) != 1 {
			return st, fmt.Errorf("after emptying the byte array %d registers remain", len(e.L.Regs))
		}
		return st, nil
	case "mapbatch", "copy":
		// build the source with the engine
		src, err := e.newRoot(bc.srcRoot())
		if err != nil {
			return st, err
		}
		e.commitModel = e.copyRoots()
		if err := e.Run(bc.Src); err != nil {
			return st, fmt.Errorf("building the source: %w", err)
		}
		if bc.Kind == "mapbatch" {
			if err := e.mapBatch(bc, src); err != nil {
				return st, err
			}
		} else {
			if err := e.copyAll(bc); err != nil {
				return st, err
			}
		}
	default:
		return st, fmt.Errorf("verif: bad C17 kind %q", bc.Kind)
	}
	if bc.Bad != "" {
		return st, nil
	}
	if err := e.fullCheck(); err != nil {
		return st, fmt.Errorf("result of %s: %w", bc.Kind, err)
	}
	if err := endCommitFresh(e, nil); err != nil {
		return st, err
	}
	// independence: keep using source and result
	for i := range bc.Post {
		e.step, e.curOp = len(bc.Src)+i, &bc.Post[i]
		if err := e.Apply(&bc.Post[i]); err != nil {
			return st, fmt.Errorf("after %s: %w", bc.Kind, err)
		}
		if err := e.afterStep(); err != nil {
			return st, fmt.Errorf("after %s: %w", bc.Kind, err)
		}
	}
	// dispose of the first root: the others stay intact and healthy
	if len(e.Roots) > 1 {
		d := e.Roots[0]
		retire(d)
		e.removeRoot(d)
		if err := e.dispose(atree.SlabIDStorable(d.Root)); err != nil {
			return st, err
		}
		if err := e.fullCheck(); err != nil {
			return st, fmt.Errorf("after disposing of the first value: %w", err)
		}
		st.label("disposed_one_of_two")
	}
	if err := e.emptyEverything(); err != nil {
		return st, err
	}
	return st, nil
}

func (bc *BCase) srcRoot() RootSpec {
	if bc.Root.K != "" {
		return bc.Root
	}
	return RootSpec{K: "map", Addr: 1, TI: 2}
}

// mapBatch streams src (a root map) into NewMapFromBatchData.
func (e *Engine) mapBatch(bc *BCase, src *Node) error {
	if !src.IsMap {
		return fmt.Errorf("verif: mapbatch needs a map source")
	}
	if err := e.acquire(src); err != nil {
		return err
	}
	type pair struct {
		k  MV
		ck string
	}
	order := e.expectedOrder(src, src.HM.Seed())
	stream := make([]pair, 0, len(order))
	for _, ck := range order {
		stream = append(stream, pair{src.Ents[ck].K, ck})
	}
	switch bc.Bad {
	case "unsorted":
		// move an entry with a strictly larger first-level digest to the front
		moved := false
		d0 := func(ck string) uint64 {
			if src.Dig != nil {
				return src.Dig.digest(ck, 0)
			}
			return e.defaultDigests(keyValue(src.Ents[ck].K), src.HM.Seed())[0]
		}
		for i := len(stream) - 1; i > 0; i-- {
			if d0(stream[i].ck) > d0(stream[0].ck) {
				p := stream[i]
				copy(stream[1:i+1], stream[0:i])
				stream[0] = p
				moved = true
				break
			}
		}
		if !moved {
			e.Stats.Skipped++
			return nil
		}
	case "dup":
		if len(stream) == 0 {
			e.Stats.Skipped++
			return nil
		}
		i := int(bc.Seed % uint64(len(stream)))
		stream = append(stream[:i+1], stream[i:]...)
	}
	node := &Node{ID: e.nextNode, Addr: src.Addr, IsMap: true, TI: TI{N: 5}, Ents: map[string]*Ent{}, Ins: map[string]int{}, Dig: src.Dig}
	e.nextNode++
	i := 0
	var ferr error
	m, err := atree.NewMapFromBatchData(e.St, src.Addr, e.digesterFor(node), node.TI, e.CB.Compare, e.CB.HashInput, src.HM.Seed(),
		func() (atree.Value, atree.Value, error) {
			if i >= len(stream) || ferr != nil {
				return nil, nil, nil
			}
			p := stream[i]
			i++
			// values are copied as fresh values (scalars / strings / wrappers / small new arrays)
			v, mv, err := e.copyValue(src.Ents[p.ck].V, src.Addr)
			if err != nil {
				ferr = err
				return nil, nil, nil
			}
			if _, dup := node.Ents[p.ck]; !dup {
				node.Ents[p.ck] = &Ent{K: p.k, V: mv}
				node.stamp++
				node.Ins[p.ck] = src.Ins[p.ck]
				if c := nodeOf(mv); c != nil {
					c.Parent = node
				}
			}
			return keyValue(p.k), v, nil
		})
	if ferr != nil {
		return ferr
	}
	switch bc.Bad {
	case "unsorted":
		var he *atree.HashError
		if err == nil || !errors.As(err, &he) || !isFatal(err) {
			return fmt.Errorf("NewMapFromBatchData over an unsorted stream: expected a fatal HashError, got %v", err)
		}
		e.Stats.label("rejected_stream")
		return nil
	case "dup":
		var de *atree.DuplicateKeyError
		if err == nil || !errors.As(err, &de) || !isFatal(err) {
			return fmt.Errorf("NewMapFromBatchData over a stream with a duplicate key: expected a fatal DuplicateKeyError, got %v", err)
		}
		e.Stats.label("rejected_stream")
		return nil
	}
	if err != nil {
		return fmt.Errorf("NewMapFromBatchData failed on a valid stream of %d entries: %v", len(stream), err)
	}
	if m.Seed() != src.HM.Seed() {
		return fmt.Errorf("bulk-built map has seed %d, source %d", m.Seed(), src.HM.Seed())
	}
	node.HM, node.Root, node.VID = m, m.SlabID(), m.ValueID()
	for _, c := range node.Children() {
		retire(c)
	}
	e.adoptRoot(node)
	e.Stats.Add("stream_elements", len(stream))
	if len(stream) == 0 {
		e.Stats.label("empty_stream")
	}
	// same order as the source
	if err := e.checkMapIterators(node); err != nil {
		return err
	}
	return nil
}

// copyValue builds a fresh library value with the content of model value m.
func (e *Engine) copyValue(m MV, addr atree.Address) (atree.Value, MV, error) {
	switch x := m.(type) {
	case U64:
		return x, x, nil
	case Str:
		return x, x, nil
	case MSome:
		v, mv, err := e.copyValue(x.V, addr)
		if err != nil {
			return nil, nil, err
		}
		return Some{V: v}, MSome{V: mv}, nil
	case *Node:
		if x.IsMap && (!x.TI.Comp || e.Cfg.HipGroups > 0) && e.excludeF4() {
			e.Stats.Add("excluded_known_F4", 1)
			return U64(uint64(len(x.Ents))), U64(uint64(len(x.Ents))), nil
		}
		if x.IsMap {
			n := &Node{ID: e.nextNode, Addr: addr, IsMap: true, TI: x.TI, Ents: map[string]*Ent{}, Ins: map[string]int{}}
			e.nextNode++
			mm, err := atree.NewMap(e.St, addr, atree.NewDefaultDigesterBuilder(), n.TI)
			if err != nil {
				return nil, nil, e.viol("NewMap failed: %v", err)
			}
			n.HM, n.VID, n.HandleStep = mm, mm.ValueID(), e.step
			for _, ck := range x.SortedKeys() {
				v, mv, err := e.copyValue(x.Ents[ck].V, addr)
				if err != nil {
					return nil, nil, err
				}
				if _, err := mm.Set(e.CB.Compare, e.CB.HashInput, keyValue(x.Ents[ck].K), v); err != nil {
					return nil, nil, e.viol("Set while copying failed: %v", err)
				}
				n.Ents[ck] = &Ent{K: x.Ents[ck].K, V: mv}
				n.stamp++
				n.Ins[ck] = n.stamp
				if c := nodeOf(mv); c != nil {
					c.Parent = n
				}
			}
			return mm, n, nil
		}
		n := &Node{ID: e.nextNode, Addr: addr, TI: x.TI}
		e.nextNode++
		a, err := atree.NewArray(e.St, addr, n.TI)
		if err != nil {
			return nil, nil, e.viol("NewArray failed: %v", err)
		}
		n.HA, n.VID, n.HandleStep = a, a.ValueID(), e.step
		for _, el := range x.Elems {
			v, mv, err := e.copyValue(el, addr)
			if err != nil {
				return nil, nil, err
			}
			if err := a.Append(v); err != nil {
				return nil, nil, e.viol("Append while copying failed: %v", err)
			}
			n.Elems = append(n.Elems, mv)
			if c := nodeOf(mv); c != nil {
				c.Parent = n
			}
		}
		return a, n, nil
	}
	return nil, nil, fmt.Errorf("verif: cannot copy %T", m)
}

// plainScalar: stored inline without any reference.
func (e *Engine) plainScalar(m MV, limit uint32) bool {
	switch x := m.(type) {
	case U64:
		return true
	case Str:
		return x.ByteSize() <= limit
	case MSome:
		lv := uint64(wrapLevels(x))
		in := MV(x)
		for i := uint64(0); i < lv; i++ {
			in = in.(MSome).V
		}
		p := somePrefixSize(lv)
		if limit < p {
			return false
		}
		return e.plainScalar(in, limit-p)
	}
	return false
}

// copyAll checks CanCopyNonRefSimple / CopyNonRefSimple on every container of the source tree.
func (e *Engine) copyAll(bc *BCase) error {
	w, err := e.walkRoots()
	if err != nil {
		return err
	}
	hasExternalGroup := map[atree.SlabID]bool{}
	for _, si := range w.Order {
		if si.Kind == kCollGroup && si.Parent != nil && !si.NestedGroup {
			hasExternalGroup[si.Parent.ID] = true
		}
	}
	for _, n := range e.allNodes() {
		if err := e.acquire(n); err != nil {
			return err
		}
		single := false
		plain := true
		var can bool
		if n.IsMap {
			single = n.HM.IsWithinSingleSlab()
			can = n.HM.CanCopyNonRefSimple()
			for _, ck := range n.SortedKeys() {
				ent := n.Ents[ck]
				ksz := storedSize(ent.K, e.MaxMapKey)
				if !e.plainScalar(ent.K, e.MaxMapKey) || !e.plainScalar(ent.V, e.mapValueLimit(ksz)) {
					plain = false
				}
			}
			if n.Parent == nil && hasExternalGroup[n.Root] {
				plain = false
			}
		} else {
			single = n.HA.IsWithinSingleSlab()
			can = n.HA.CanCopyNonRefSimple()
			for _, el := range n.Elems {
				if !e.plainScalar(el, e.MaxArrElem) {
					plain = false
				}
			}
		}
		want := single && plain
		if can != want {
			return fmt.Errorf("container #%d (map=%v): CanCopyNonRefSimple()=%v but single-slab=%v and all-plain=%v: %s", n.ID, n.IsMap, can, single, plain, modelSummary(n, 1))
		}
		var cp *Node
		if n.IsMap {
			c, err := n.HM.CopyNonRefSimple(n.Addr, e.digesterFor(n))
			if want {
				if err != nil {
					return fmt.Errorf("CopyNonRefSimple failed although CanCopyNonRefSimple() is true: %v", err)
				}
				cp = deepCopyMV(n, nil).(*Node)
				cp.HM, cp.Root, cp.VID = c, c.SlabID(), c.ValueID()
				if c.Seed() != n.HM.Seed() {
					return fmt.Errorf("copied map has seed %d, source %d", c.Seed(), n.HM.Seed())
				}
			} else if err == nil {
				return fmt.Errorf("CopyNonRefSimple succeeded although CanCopyNonRefSimple() is false (single-slab=%v plain=%v)", single, plain)
			}
		} else {
			c, err := n.HA.CopyNonRefSimple(n.Addr)
			if want {
				if err != nil {
					return fmt.Errorf("CopyNonRefSimple failed although CanCopyNonRefSimple() is true: %v", err)
				}
				cp = deepCopyMV(n, nil).(*Node)
				cp.HA, cp.Root, cp.VID = c, c.SlabID(), c.ValueID()
			} else if err == nil {
				return fmt.Errorf("CopyNonRefSimple succeeded although CanCopyNonRefSimple() is false (single-slab=%v plain=%v)", single, plain)
			}
		}
		if cp != nil {
			cp.ID = e.nextNode
			e.nextNode++
			cp.Detached = false
			if cp.Root == atree.SlabIDUndefined || cp.VID == n.VID {
				return fmt.Errorf("copy has identifiers %s / %s, source value id %s", cp.Root, cp.VID, n.VID)
			}
			e.adoptRoot(cp)
			e.Stats.label("copied")
			if n.Parent != nil {
				e.Stats.label("copied_nested")
				inl := false
				if n.IsMap {
					inl = n.HM.Inlined()
				} else {
					inl = n.HA.Inlined()
				}
				if inl {
					e.Stats.label("copied_inlined_source")
				}
			}
		} else {
			e.Stats.label("copy_refused")
			if !single {
				e.Stats.label("copy_refused_multi_slab")
			} else {
				e.Stats.label("copy_refused_not_plain")
			}
		}
	}
	return nil
}

func init() {
	srcGen := &GenCfg{
		Slabs: quickSlabs, MinOps: 0, MaxOps: 25,
		W: map[string]int{"app": 10, "ins": 4, "set": 4, "rem": 4, "appN": 5, "remN": 2,
			"mset": 14, "mrem": 5, "msetN": 6, "mremN": 2, "styp": 1, "reopen": 1, "commit": 1, "mgrow": 1},
		Roots:   [][]RootSpec{{{K: "map", Addr: 1, TI: 2}}},
		MaxBulk: 60, Keys: []int{12, 64, 300},
		ValW:     map[string]int{"u": 10, "s0": 4, "s1": 4, "s2": 2, "s4": 1, "s5": 2, "s6": 1, "some": 3, "arr": 3, "map": 2},
		MaxDepth: 2, MaxElems: 4, AcqW: [3]int{8, 1, 1},
	}
	postGen := &GenCfg{
		W:       map[string]int{"app": 6, "set": 4, "rem": 6, "appN": 2, "remN": 2, "mset": 8, "mrem": 6, "msetN": 2, "mremN": 2, "pop": 1, "mpop": 1, "commit": 1, "reopen": 1, "styp": 3},
		MaxBulk: 30, ValW: map[string]int{"u": 6, "s1": 3, "s5": 1, "arr": 1}, MaxDepth: 1, MaxElems: 3, AcqW: [3]int{8, 1, 1},
	}
	register(&PropDef{
		ID:  "C17",
		New: func() any { return &BCase{} },
		Gen: func(t *rapid.T) any {
			big := 2500
			slabs := quickSlabs
			if thorough() {
				big = 20000
				slabs = allSlabs
			}
			bc := &BCase{Prop: "C17"}
			bc.Kind = rapid.SampledFrom([]string{"arrbatch", "arrbatch", "bytes", "mapbatch", "mapbatch", "copy", "copy"}).Draw(t, "kind")
			bc.Cfg.Slab = rapid.SampledFrom(slabs).Draw(t, "slab")
			if rapid.IntRange(0, 5).Draw(t, "slabq") == 0 {
				hi := uint32(2100)
				if thorough() {
					hi = 32768
				}
				bc.Cfg.Slab = rapid.Uint32Range(256, hi).Draw(t, "slabu")
			}
			bc.Cfg.Keys = rapid.SampledFrom([]int{12, 64, 300}).Draw(t, "keys")
			bc.Seed = rapid.Uint64Range(0, 1000).Draw(t, "seed")
			switch bc.Kind {
			case "arrbatch":
				bc.Prog = rapid.SampledFrom([]string{"const", "alt", "ramp", "hugeend", "fill", "fill", "mix", "mix", "mix"}).Draw(t, "prog")
				bc.Z = rapid.SampledFrom([]int{0, 0, 1, 1, 2, 3, 4, 5, 7}).Draw(t, "z")
				if bc.Prog == "mix" {
					bc.N = rapid.IntRange(1, 24).Draw(t, "nmix")
				} else if rapid.IntRange(0, 4).Draw(t, "bigN") == 0 {
					bc.N = rapid.IntRange(0, big).Draw(t, "nbig")
				} else {
					bc.N = rapid.IntRange(0, 200).Draw(t, "n")
				}
				bc.Q = rapid.IntRange(0, 60).Draw(t, "q")
				bc.R = rapid.IntRange(0, 3).Draw(t, "r")
				if rapid.IntRange(0, 3).Draw(t, "nest") == 0 {
					bc.Nest = rapid.IntRange(1, 9).Draw(t, "nestk")
				}
			case "bytes":
				s := int(bc.Cfg.Slab)
				bc.N = rapid.SampledFrom([]int{0, 1, 2, s/4 - 3, s/4 - 2, s/4 - 1, s / 4, s/4 + 1, s/3 - 2, s/3 - 1, s / 3, s/3 + 1, s / 2, s, 3 * s}).Draw(t, "bn")
				if bc.N < 0 {
					bc.N = 0
				}
				bc.N += rapid.IntRange(0, 3).Draw(t, "bd")
				bc.Est = rapid.SampledFrom([]uint32{0, 3, 4, 1}).Draw(t, "est")
				bc.Z = rapid.IntRange(0, 1).Draw(t, "bz")
			case "mapbatch":
				if rapid.IntRange(0, 2).Draw(t, "hipgroups") == 0 {
					bc.Cfg.HipGroups = rapid.SampledFrom([]int{4, 64}).Draw(t, "hipg")
				}
				bc.Bad = rapid.SampledFrom([]string{"", "", "", "", "unsorted", "dup"}).Draw(t, "bad")
				if rapid.IntRange(0, 2).Draw(t, "dig") == 0 {
					bc.Root = RootSpec{K: "map", Addr: 1, TI: 2, Dig: genDigSpec(t)}
				} else {
					bc.Root = RootSpec{K: "map", Addr: 1, TI: 2}
				}
			case "copy":
				k := rapid.SampledFrom([]string{"arr", "map"}).Draw(t, "ck")
				bc.Root = RootSpec{K: k, Addr: 1, TI: 2}
				if k == "map" && rapid.IntRange(0, 9).Draw(t, "copydig") < 4 {
					bc.Root.Dig = genDigSpec(t) // sources with inline / external collision groups
				}
			}
			if bc.Kind == "mapbatch" || bc.Kind == "copy" {
				n := rapid.IntRange(0, 25).Draw(t, "nsrc")
				for i := 0; i < n; i++ {
					bc.Src = append(bc.Src, srcGen.genOp(t))
				}
			}
			if bc.Bad == "" && bc.Kind != "bytes" {
				n := rapid.IntRange(0, 8).Draw(t, "npost")
				for i := 0; i < n; i++ {
					bc.Post = append(bc.Post, postGen.genOp(t))
				}
			}
			return bc
		},
		Run: func(c any) (*CaseStats, error) { return runC17(c.(*BCase)) },
		Nontrivial: func(s *CaseStats) bool {
			return s.Has("multi_slab") || s.Has("copied") || s.Has("copy_refused_not_plain") || s.Has("rejected_stream") || s.Has("bytes_roundtrip")
		},
		Rule: "bulk-built container spanning several slabs, a performed or (for non-plain sources) refused copy, a rejected stream, or a byte round trip; every result must pass all structural oracles and stay independent of its source",
		Slab: func(c any) uint32 { return c.(*BCase).Cfg.Slab },
	})
}
