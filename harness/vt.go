// Package harness is the verification harness for onflow/atree.
//
// vt.go: the harness's own value layer (Value / Storable / TypeInfo
// implementations, decoders, comparator and hash-input provider).  It does not
// use atree's test_utils on purpose (DESIGN.md R5).
package harness

import (
	"encoding/binary"
	"errors"
	"fmt"
	"math"
	"strings"

	"github.com/fxamacker/cbor/v2"

	"github.com/onflow/atree"
)

// CBOR tag numbers used by the harness.  atree reserves 240-255.
const (
	tagU64     = 170
	tagSome    = 171
	tagSomeN   = 172
	tagByte    = 173
	tagCompTI  = 201
	cborTagLen = 2
)

var (
	EncMode cbor.EncMode
	DecMode cbor.DecMode
)

func init() {
	var err error
	EncMode, err = cbor.EncOptions{}.EncMode()
	if err != nil {
		panic(err)
	}
	DecMode, err = cbor.DecOptions{}.DecMode()
	if err != nil {
		panic(err)
	}
}

func uintSize(n uint64) uint32 {
	switch {
	case n <= 23:
		return 1
	case n <= math.MaxUint8:
		return 2
	case n <= math.MaxUint16:
		return 3
	case n <= math.MaxUint32:
		return 5
	}
	return 9
}

func putUint(buf []byte, major byte, n uint64) int {
	switch {
	case n <= 23:
		buf[0] = major | byte(n)
		return 1
	case n <= math.MaxUint8:
		buf[0] = major | 24
		buf[1] = byte(n)
		return 2
	case n <= math.MaxUint16:
		buf[0] = major | 25
		binary.BigEndian.PutUint16(buf[1:], uint16(n))
		return 3
	case n <= math.MaxUint32:
		buf[0] = major | 26
		binary.BigEndian.PutUint32(buf[1:], uint32(n))
		return 5
	}
	buf[0] = major | 27
	binary.BigEndian.PutUint64(buf[1:], n)
	return 9
}

// ---------------------------------------------------------------- TypeInfo

type TI struct {
	N    uint64
	Comp bool
}

var _ atree.TypeInfo = TI{}

func (t TI) Encode(enc *cbor.StreamEncoder) error {
	if t.Comp {
		if err := enc.EncodeTagHead(tagCompTI); err != nil {
			return err
		}
	}
	return enc.EncodeUint64(t.N)
}
func (t TI) IsComposite() bool    { return t.Comp }
func (t TI) Copy() atree.TypeInfo { return t }
func (t TI) String() string       { return fmt.Sprintf("TI(%d,%v)", t.N, t.Comp) }
func (t TI) Identifier() string   { return t.String() }

func DecodeTypeInfo(dec *cbor.StreamDecoder) (atree.TypeInfo, error) {
	t, err := dec.NextType()
	if err != nil {
		return nil, err
	}
	switch t {
	case cbor.UintType:
		n, err := dec.DecodeUint64()
		if err != nil {
			return nil, err
		}
		return TI{N: n}, nil
	case cbor.TagType:
		tn, err := dec.DecodeTagNumber()
		if err != nil {
			return nil, err
		}
		if tn != tagCompTI {
			return nil, fmt.Errorf("unknown type info tag %d", tn)
		}
		n, err := dec.DecodeUint64()
		if err != nil {
			return nil, err
		}
		return TI{N: n, Comp: true}, nil
	}
	return nil, fmt.Errorf("bad type info cbor type %s", t)
}

func CompareTI(a, b atree.TypeInfo) bool {
	x, ok1 := a.(TI)
	y, ok2 := b.(TI)
	return ok1 && ok2 && x == y
}

// ---------------------------------------------------------------- U64

type U64 uint64

var _ atree.Value = U64(0)
var _ atree.Storable = U64(0)

func (v U64) Storable(atree.SlabStorage, atree.Address, uint32) (atree.Storable, error) {
	return v, nil
}
func (v U64) StoredValue(atree.SlabStorage) (atree.Value, error) { return v, nil }
func (v U64) ChildStorables() []atree.Storable                   { return nil }
func (v U64) CanCopyNonRefSimple() bool                          { return true }
func (v U64) CopyNonRefSimple() (atree.Storable, error)          { return v, nil }

// like Cadence and the repository's own test values, the size of an unsigned integer comes from the library's helper
func (v U64) ByteSize() uint32 { return cborTagLen + atree.GetUintCBORSize(uint64(v)) }
func (v U64) String() string   { return fmt.Sprintf("%d", uint64(v)) }
func (v U64) Encode(enc *atree.Encoder) error {
	if err := enc.CBOR.EncodeRawBytes([]byte{0xd8, tagU64}); err != nil {
		return err
	}
	return enc.CBOR.EncodeUint64(uint64(v))
}
func (v U64) hashInput(buf []byte) []byte {
	if len(buf) < 16 {
		buf = make([]byte, 16)
	}
	buf[0], buf[1] = 0xd8, tagU64
	n := putUint(buf[2:], 0, uint64(v))
	return buf[:2+n]
}

// ---------------------------------------------------------------- Byte (for the byte-conversion API)

type Byte byte

var _ atree.Value = Byte(0)
var _ atree.Storable = Byte(0)

func (v Byte) Storable(atree.SlabStorage, atree.Address, uint32) (atree.Storable, error) {
	return v, nil
}
func (v Byte) StoredValue(atree.SlabStorage) (atree.Value, error) { return v, nil }
func (v Byte) ChildStorables() []atree.Storable                   { return nil }
func (v Byte) CanCopyNonRefSimple() bool                          { return true }
func (v Byte) CopyNonRefSimple() (atree.Storable, error)          { return v, nil }
func (v Byte) ByteSize() uint32                                   { return cborTagLen + uintSize(uint64(v)) }
func (v Byte) String() string                                     { return fmt.Sprintf("b%d", byte(v)) }
func (v Byte) Encode(enc *atree.Encoder) error {
	if err := enc.CBOR.EncodeRawBytes([]byte{0xd8, tagByte}); err != nil {
		return err
	}
	return enc.CBOR.EncodeUint8(uint8(v))
}

// ByteW is a second byte type whose CBOR tag number needs a 2-byte argument (tag 300: 3-byte tag head), so that
// nothing in the conversion API can get away with assuming the size of a byte storable.
type ByteW byte

const tagByteW = 300

var _ atree.Value = ByteW(0)
var _ atree.Storable = ByteW(0)

func (v ByteW) Storable(atree.SlabStorage, atree.Address, uint32) (atree.Storable, error) {
	return v, nil
}
func (v ByteW) StoredValue(atree.SlabStorage) (atree.Value, error) { return v, nil }
func (v ByteW) ChildStorables() []atree.Storable                   { return nil }
func (v ByteW) CanCopyNonRefSimple() bool                          { return true }
func (v ByteW) CopyNonRefSimple() (atree.Storable, error)          { return v, nil }
func (v ByteW) ByteSize() uint32                                   { return 3 + uintSize(uint64(v)) }
func (v ByteW) String() string                                     { return fmt.Sprintf("bw%d", byte(v)) }
func (v ByteW) Encode(enc *atree.Encoder) error {
	if err := enc.CBOR.EncodeRawBytes([]byte{0xd9, tagByteW >> 8, tagByteW & 0xff}); err != nil {
		return err
	}
	return enc.CBOR.EncodeUint8(uint8(v))
}

// ---------------------------------------------------------------- Str

type Str struct{ S string }

var _ atree.Value = Str{}
var _ atree.ComparableStorable = Str{}

func (v Str) ByteSize() uint32 { return uintSize(uint64(len(v.S))) + uint32(len(v.S)) }
func (v Str) Storable(st atree.SlabStorage, addr atree.Address, maxInline uint32) (atree.Storable, error) {
	if sz := v.ByteSize(); sz > maxInline {
		return atree.NewStorableSlab(st, addr, v, sz)
	}
	return v, nil
}
func (v Str) StoredValue(atree.SlabStorage) (atree.Value, error) { return v, nil }
func (v Str) ChildStorables() []atree.Storable                   { return nil }
func (v Str) CanCopyNonRefSimple() bool                          { return true }
func (v Str) CopyNonRefSimple() (atree.Storable, error)          { return Str{strings.Clone(v.S)}, nil }
func (v Str) Encode(enc *atree.Encoder) error                    { return enc.CBOR.EncodeString(v.S) }
func (v Str) String() string {
	if len(v.S) > 12 {
		return fmt.Sprintf("%q..(%d)", v.S[:12], len(v.S))
	}
	return fmt.Sprintf("%q", v.S)
}
func (v Str) Equal(o atree.Storable) bool {
	x, ok := o.(Str)
	return ok && x.S == v.S
}
func (v Str) Less(o atree.Storable) bool {
	x, ok := o.(Str)
	return ok && v.S < x.S
}
func (v Str) ID() string { return v.S }
func (v Str) hashInput(buf []byte) []byte {
	n := int(v.ByteSize())
	if len(buf) < n {
		buf = make([]byte, n)
	}
	h := putUint(buf, 0x60, uint64(len(v.S)))
	copy(buf[h:], v.S)
	return buf[:n]
}

// ---------------------------------------------------------------- Some (wrapper)

type Some struct{ V atree.Value }

var _ atree.WrapperValue = Some{}

type SomeSt struct{ S atree.Storable }

var _ atree.WrapperStorable = SomeSt{}
var _ atree.ContainerStorable = SomeSt{}

func somePrefixSize(levels uint64) uint32 {
	if levels == 1 {
		return cborTagLen
	}
	return cborTagLen + 1 + uintSize(levels)
}

func (v Some) inner() (atree.Value, uint64) {
	levels := uint64(1)
	for {
		x, ok := v.V.(Some)
		if !ok {
			return v.V, levels
		}
		levels++
		v = x
	}
}

func (v Some) Storable(st atree.SlabStorage, addr atree.Address, maxInline uint32) (atree.Storable, error) {
	in, levels := v.inner()
	p := somePrefixSize(levels)
	if maxInline < p {
		maxInline = 0
	} else {
		maxInline -= p
	}
	s, err := in.Storable(st, addr, maxInline)
	if err != nil {
		return nil, err
	}
	for i := uint64(0); i < levels; i++ {
		s = SomeSt{S: s}
	}
	return s, nil
}

func (v Some) UnwrapAtreeValue() (atree.Value, uint32) {
	in, levels := v.inner()
	p := somePrefixSize(levels)
	if w, ok := in.(atree.WrapperValue); ok {
		u, sz := w.UnwrapAtreeValue()
		return u, sz + p
	}
	return in, p
}
func (v Some) String() string { return fmt.Sprintf("Some(%v)", v.V) }

func (s SomeSt) inner() (atree.Storable, uint64) {
	levels := uint64(1)
	for {
		x, ok := s.S.(SomeSt)
		if !ok {
			return s.S, levels
		}
		levels++
		s = x
	}
}
func (s SomeSt) ByteSize() uint32 {
	in, levels := s.inner()
	return somePrefixSize(levels) + in.ByteSize()
}
func (s SomeSt) Encode(enc *atree.Encoder) error {
	in, levels := s.inner()
	if levels == 1 {
		if err := enc.CBOR.EncodeRawBytes([]byte{0xd8, tagSome}); err != nil {
			return err
		}
		return in.Encode(enc)
	}
	if err := enc.CBOR.EncodeRawBytes([]byte{0xd8, tagSomeN, 0x82}); err != nil {
		return err
	}
	if err := enc.CBOR.EncodeUint64(levels); err != nil {
		return err
	}
	return in.Encode(enc)
}
func (s SomeSt) ChildStorables() []atree.Storable { return []atree.Storable{s.S} }
func (s SomeSt) StoredValue(st atree.SlabStorage) (atree.Value, error) {
	v, err := s.S.StoredValue(st)
	if err != nil {
		return nil, err
	}
	return Some{V: v}, nil
}
func (s SomeSt) HasPointer() bool {
	if c, ok := s.S.(atree.ContainerStorable); ok {
		return c.HasPointer()
	}
	return false
}
func (s SomeSt) CanCopyNonRefSimple() bool { return s.UnwrapAtreeStorable().CanCopyNonRefSimple() }
func (s SomeSt) CopyNonRefSimple() (atree.Storable, error) {
	w, err := s.UnwrapAtreeStorable().CopyNonRefSimple()
	if err != nil {
		return nil, err
	}
	return s.WrapAtreeStorable(w), nil
}
func (s SomeSt) UnwrapAtreeStorable() atree.Storable {
	x := s.S
	for {
		w, ok := x.(atree.WrapperStorable)
		if !ok {
			return x
		}
		x = w.UnwrapAtreeStorable()
	}
}
func (s SomeSt) WrapAtreeStorable(x atree.Storable) atree.Storable {
	_, levels := s.inner()
	for i := uint64(0); i < levels; i++ {
		x = SomeSt{S: x}
	}
	return x
}
func (s SomeSt) String() string { return fmt.Sprintf("SomeSt(%v)", s.S) }

// ---------------------------------------------------------------- RawRef (plants a slab reference; C20 only)

type RawRef struct{ ID atree.SlabID }

func (r RawRef) Storable(atree.SlabStorage, atree.Address, uint32) (atree.Storable, error) {
	return atree.SlabIDStorable(r.ID), nil
}

// ---------------------------------------------------------------- decoder

// MaxSomeLevels bounds the nesting accepted by the decoder (a storable decoder
// must itself be robust: it runs inside the C19 target).
const maxDecodeDepth = 64

func DecodeStorable(dec *cbor.StreamDecoder, id atree.SlabID, ied []atree.ExtraData) (atree.Storable, error) {
	return decodeStorable(dec, id, ied, 0)
}

func decodeStorable(dec *cbor.StreamDecoder, id atree.SlabID, ied []atree.ExtraData, depth int) (atree.Storable, error) {
	if depth > maxDecodeDepth {
		return nil, errors.New("storable nesting too deep")
	}
	t, err := dec.NextType()
	if err != nil {
		return nil, err
	}
	switch t {
	case cbor.TextStringType:
		s, err := dec.DecodeString()
		if err != nil {
			return nil, err
		}
		return Str{s}, nil
	case cbor.TagType:
		tn, err := dec.DecodeTagNumber()
		if err != nil {
			return nil, err
		}
		rec := func(d *cbor.StreamDecoder, i atree.SlabID, e []atree.ExtraData) (atree.Storable, error) {
			return decodeStorable(d, i, e, depth+1)
		}
		switch tn {
		case atree.CBORTagInlinedArray:
			return atree.DecodeInlinedArrayStorable(dec, rec, id, ied)
		case atree.CBORTagInlinedMap:
			return atree.DecodeInlinedMapStorable(dec, rec, id, ied)
		case atree.CBORTagInlinedCompactMap:
			return atree.DecodeInlinedCompactMapStorable(dec, rec, id, ied)
		case atree.CBORTagSlabID:
			return atree.DecodeSlabIDStorable(dec)
		case tagU64:
			n, err := dec.DecodeUint64()
			if err != nil {
				return nil, err
			}
			return U64(n), nil
		case tagByte:
			n, err := dec.DecodeUint64()
			if err != nil {
				return nil, err
			}
			if n > math.MaxUint8 {
				return nil, fmt.Errorf("byte out of range %d", n)
			}
			return Byte(n), nil
		case tagByteW:
			n, err := dec.DecodeUint64()
			if err != nil {
				return nil, err
			}
			if n > math.MaxUint8 {
				return nil, fmt.Errorf("byte out of range %d", n)
			}
			return ByteW(n), nil
		case tagSome:
			s, err := decodeStorable(dec, id, ied, depth+1)
			if err != nil {
				return nil, err
			}
			if _, nested := s.(SomeSt); nested {
				// canonical form of nested wrappers is tagSomeN
				return nil, errors.New("non-canonical nested some")
			}
			return SomeSt{S: s}, nil
		case tagSomeN:
			c, err := dec.DecodeArrayHead()
			if err != nil {
				return nil, err
			}
			if c != 2 {
				return nil, fmt.Errorf("bad someN array length %d", c)
			}
			levels, err := dec.DecodeUint64()
			if err != nil {
				return nil, err
			}
			if levels <= 1 || levels > 16 {
				return nil, fmt.Errorf("bad someN levels %d", levels)
			}
			s, err := decodeStorable(dec, id, ied, depth+1)
			if err != nil {
				return nil, err
			}
			if _, nested := s.(SomeSt); nested {
				return nil, errors.New("non-canonical nested some")
			}
			for i := uint64(0); i < levels; i++ {
				s = SomeSt{S: s}
			}
			return s, nil
		}
		return nil, fmt.Errorf("unknown tag %d", tn)
	}
	return nil, fmt.Errorf("unsupported cbor type %s", t)
}

// ---------------------------------------------------------------- comparator / hash input with fault injection

// Callbacks bundles the caller-supplied components handed to atree, with call
// counters and optional "fail on the k-th call" injection (C18).
type Callbacks struct {
	CmpCalls, HipCalls   int
	FailCmpAt, FailHipAt int // 1-based; 0 = never
	Jitter               func()
	// Groups > 0: the hash input of every key is crafted so that, under the DEFAULT digester, all keys of
	// one group share their first-level digest (CircleHash64f) for any seed, while the deeper BLAKE3
	// digests differ: 32 bytes = pi1 (8, little endian) || key hash (8) || group (16).  CircleHash64f folds
	// 16-byte chunks as mix64(a^pi1, b^state), so a chunk starting with pi1 zeroes the state.
	Groups int
}

const circlePi1 = uint64(0x13198A2E03707344)

// Msg is the hash input of v (no counting, no fault injection).
func (c *Callbacks) Msg(v atree.Value, buf []byte) ([]byte, error) {
	if c == nil || c.Groups <= 0 {
		return hashInput(v, buf)
	}
	plain, err := hashInput(v, nil)
	if err != nil {
		return nil, err
	}
	h := uint64(1469598103934665603)
	for _, b := range plain {
		h ^= uint64(b)
		h *= 1099511628211
	}
	h = mix64(h)
	msg := make([]byte, 32)
	binary.LittleEndian.PutUint64(msg[0:], circlePi1)
	binary.LittleEndian.PutUint64(msg[8:], h)
	g := byte(h%uint64(c.Groups)) + 1
	for i := 16; i < 32; i++ {
		msg[i] = g
	}
	return msg, nil
}

// PlainHIP is the hash-input provider without counting / injection (for verifiers and read-only checks).
func (c *Callbacks) PlainHIP(v atree.Value, buf []byte) ([]byte, error) { return c.Msg(v, buf) }

var ErrInjected = errors.New("verif: injected failure")

func (c *Callbacks) Compare(st atree.SlabStorage, v atree.Value, s atree.Storable) (bool, error) {
	if c != nil {
		c.CmpCalls++
		if c.Jitter != nil {
			c.Jitter()
		}
		if c.FailCmpAt != 0 && c.CmpCalls == c.FailCmpAt {
			return false, ErrInjected
		}
	}
	return compareValue(st, v, s)
}

func (c *Callbacks) HashInput(v atree.Value, buf []byte) ([]byte, error) {
	if c != nil {
		c.HipCalls++
		if c.Jitter != nil {
			c.Jitter()
		}
		if c.FailHipAt != 0 && c.HipCalls == c.FailHipAt {
			return nil, ErrInjected
		}
	}
	return c.Msg(v, buf)
}

func compareValue(st atree.SlabStorage, v atree.Value, s atree.Storable) (bool, error) {
	switch v := v.(type) {
	case U64:
		o, ok := s.(U64)
		return ok && o == v, nil
	case Byte:
		o, ok := s.(Byte)
		return ok && o == v, nil
	case Str:
		if o, ok := s.(Str); ok {
			return o.S == v.S, nil
		}
		if _, ok := s.(atree.SlabIDStorable); ok {
			ov, err := s.StoredValue(st)
			if err != nil {
				return false, err
			}
			o, ok := ov.(Str)
			return ok && o.S == v.S, nil
		}
		return false, nil
	case Some:
		o, ok := s.(SomeSt)
		if !ok {
			return false, nil
		}
		return compareValue(st, v.V, o.S)
	}
	return false, fmt.Errorf("verif: value %T not comparable", v)
}

func hashInput(v atree.Value, buf []byte) ([]byte, error) {
	switch v := v.(type) {
	case U64:
		return v.hashInput(buf), nil
	case Str:
		return v.hashInput(buf), nil
	case Some:
		b, err := hashInput(v.V, nil)
		if err != nil {
			return nil, err
		}
		out := make([]byte, len(b)+2)
		out[0], out[1] = 0xd8, tagSome
		copy(out[2:], b)
		return out, nil
	}
	return nil, fmt.Errorf("verif: value %T not hashable", v)
}

// HIP is the plain hash-input provider (no injection); used by verifiers.
func HIP(v atree.Value, buf []byte) ([]byte, error) { return hashInput(v, buf) }

// encodeStorable encodes one storable with a fresh encoder (used by the size oracle).
func encodeStorable(s atree.Storable) ([]byte, error) {
	var sb strings.Builder
	_ = sb
	buf := &byteSink{}
	enc := atree.NewEncoder(buf, EncMode)
	if err := s.Encode(enc); err != nil {
		return nil, err
	}
	if err := enc.CBOR.Flush(); err != nil {
		return nil, err
	}
	return buf.b, nil
}

type byteSink struct{ b []byte }

func (s *byteSink) Write(p []byte) (int, error) { s.b = append(s.b, p...); return len(p), nil }
