package harness

// c13_readonly.go: the contract of read-only iteration (C13, R12): a nested container obtained from any
// read-only flavour refuses mutation with ReadOnlyIteratorElementMutationError and reports it to the
// caller's mutation callback.  The documented side effect (the in-memory child may be changed although
// the call fails) is why this runs on a scratch storage that is thrown away afterwards.

import (
	"errors"
	"fmt"

	"github.com/onflow/atree"
)

func (e *Engine) readOnlyMutationScenario(salt uint64) error {
	h := mix64(salt ^ 0x5eed)
	parentIsMap := h&1 == 1
	wrapped := h>>1&1 == 1
	big := h>>2&1 == 1 // child too large to be inlined: lives in its own slab
	childIsMap := h>>3&1 == 1
	fl := int(h >> 4 % 8)
	e.curOp = &Op{K: "readonly-mutation", T: uint(fl)}
	what := fmt.Sprintf("read-only scenario (map parent=%v wrapped=%v standalone child=%v map child=%v flavour=%d)", parentIsMap, wrapped, big, childIsMap, fl)

	st := NewStorage(NewLedger())
	addr := addrOf(1)
	// (plain hash inputs: under the colliding hash-input provider a standalone child map of a few hundred keys would
	// run into the collision limit)
	plain := &Callbacks{}
	cmp, hip := plain.Compare, plain.HashInput
	n := 2
	if big {
		n = int(e.Cfg.Slab)/24 + 4
	}
	var child atree.Value
	if childIsMap {
		m, err := atree.NewMap(st, addr, atree.NewDefaultDigesterBuilder(), TI{N: 7})
		if err != nil {
			return e.viol("%s: %v", what, err)
		}
		for i := 0; i < n; i++ {
			if _, err := m.Set(cmp, hip, U64(uint64(i)), Str{strOf(uint64(i), 24)}); err != nil {
				return e.viol("%s: %v", what, err)
			}
		}
		child = m
	} else {
		a, err := atree.NewArray(st, addr, TI{N: 8})
		if err != nil {
			return e.viol("%s: %v", what, err)
		}
		for i := 0; i < n; i++ {
			if err := a.Append(Str{strOf(uint64(i), 24)}); err != nil {
				return e.viol("%s: %v", what, err)
			}
		}
		child = a
	}
	elem := child
	if wrapped {
		elem = Some{V: child}
	}
	called := 0
	var calledWith atree.Value
	cb := func(v atree.Value) { called++; calledWith = v }
	var got atree.Value
	withCB := false
	take := func(v atree.Value) (bool, error) { got = v; return false, nil }
	if parentIsMap {
		p, err := atree.NewMap(st, addr, atree.NewDefaultDigesterBuilder(), TI{N: 9})
		if err != nil {
			return e.viol("%s: %v", what, err)
		}
		if _, err := p.Set(cmp, hip, U64(1), U64(1)); err != nil {
			return e.viol("%s: %v", what, err)
		}
		if _, err := p.Set(cmp, hip, U64(7), elem); err != nil {
			return e.viol("%s: %v", what, err)
		}
		takeKV := func(k, v atree.Value) (bool, error) {
			if ku, ok := k.(U64); ok && ku == 7 {
				got = v
				return false, nil
			}
			return true, nil
		}
		takeV := func(v atree.Value) (bool, error) {
			if _, ok := v.(U64); ok {
				return true, nil
			}
			got = v
			return false, nil
		}
		switch fl % 6 {
		case 0:
			err = p.IterateReadOnly(takeKV)
		case 1:
			withCB = true
			err = p.IterateReadOnlyWithMutationCallback(takeKV, cb, cb)
		case 2:
			err = p.IterateReadOnlyValues(takeV)
		case 3:
			withCB = true
			err = p.IterateReadOnlyValuesWithMutationCallback(takeV, cb)
		case 4, 5:
			var it atree.MapIterator
			if fl%6 == 4 {
				it, err = p.ReadOnlyIterator()
			} else {
				withCB = true
				it, err = p.ReadOnlyIteratorWithMutationCallback(cb, cb)
			}
			for err == nil {
				var k, v atree.Value
				k, v, err = it.Next()
				if k == nil {
					break
				}
				if ku, ok := k.(U64); ok && ku == 7 {
					got = v
					break
				}
			}
		}
		if err != nil {
			return e.viol("%s: iteration failed: %v", what, err)
		}
	} else {
		p, err := atree.NewArray(st, addr, TI{N: 9})
		if err != nil {
			return e.viol("%s: %v", what, err)
		}
		if err := p.Append(elem); err != nil {
			return e.viol("%s: %v", what, err)
		}
		if err := p.Append(U64(1)); err != nil {
			return e.viol("%s: %v", what, err)
		}
		var it atree.ArrayIterator
		switch fl {
		case 0:
			err = p.IterateReadOnly(take)
		case 1:
			withCB = true
			err = p.IterateReadOnlyWithMutationCallback(take, cb)
		case 2:
			it, err = p.ReadOnlyIterator()
		case 3:
			withCB = true
			it, err = p.ReadOnlyIteratorWithMutationCallback(cb)
		case 4:
			err = p.IterateReadOnlyRange(0, 1, take)
		case 5:
			withCB = true
			err = p.IterateReadOnlyRangeWithMutationCallback(0, 2, take, cb)
		case 6:
			it, err = p.ReadOnlyRangeIterator(0, 1)
		case 7:
			withCB = true
			it, err = p.ReadOnlyRangeIteratorWithMutationCallback(0, 2, cb)
		}
		if err == nil && it != nil {
			got, err = it.Next()
		}
		if err != nil {
			return e.viol("%s: iteration failed: %v", what, err)
		}
	}
	if got == nil {
		return e.viol("%s: the nested container was not yielded", what)
	}
	if _, isSome := got.(Some); isSome != wrapped {
		return e.viol("%s: yielded element has type %T", what, got)
	}
	var merr error
	switch c := unwrapSome(got).(type) {
	case *atree.Array:
		if childIsMap {
			return e.viol("%s: yielded an array, expected a map", what)
		}
		if h>>8&1 == 0 {
			merr = c.Append(U64(5))
		} else {
			_, merr = c.Remove(0)
		}
	case *atree.OrderedMap:
		if !childIsMap {
			return e.viol("%s: yielded a map, expected an array", what)
		}
		if h>>8&1 == 0 {
			_, merr = c.Set(cmp, hip, U64(100000), U64(5))
		} else {
			_, _, merr = c.Remove(cmp, hip, U64(0))
		}
	default:
		return e.viol("%s: yielded %T instead of the nested container", what, got)
	}
	var ro *atree.ReadOnlyIteratorElementMutationError
	if merr == nil || !errors.As(merr, &ro) {
		return e.viol("%s: mutating a container obtained from a read-only iterator returned %v, expected ReadOnlyIteratorElementMutationError", what, merr)
	}
	if !isFatal(merr) || isUser(merr) {
		return e.viol("%s: ReadOnlyIteratorElementMutationError does not carry the fatal category: %v", what, merr)
	}
	if withCB {
		if called != 1 {
			return e.viol("%s: the mutation callback was invoked %d times for one refused mutation", what, called)
		}
		if calledWith != got {
			return e.viol("%s: the mutation callback received %T, not the yielded element", what, calledWith)
		}
	}
	e.Stats.label("readonly_mutation_refused")
	return nil
}
