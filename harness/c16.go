package harness

// c16.go: parallel commit / preload and concurrent storages are race-free and
// sequential-equal.  Built with -race; the driver treats any race report as a
// violation (GORACE=halt_on_error=1, exit code 66).

import (
	"encoding/json"
	"errors"
	"fmt"
	"github.com/fxamacker/cbor/v2"
	"os"
	"runtime"
	"runtime/debug"
	"sync"

	"github.com/onflow/atree"
	"pgregory.net/rapid"
)

type PCase struct {
	Prop  string     `json:"prop"`
	Cfg   Config     `json:"cfg"`
	Procs int        `json:"procs"`
	Hist  [][]Op     `json:"hist"`            // one history per goroutine
	Roots []RootSpec `json:"roots"`           // roots of every history
	Fault int        `json:"fault,omitempty"` // 1: failing ledger write in the parallel commit, 2: failing element encoder
}

// FailEnc is a value whose encoding fails (an "encoder" fault for the commit workers).
type FailEnc struct{}

func (FailEnc) Storable(atree.SlabStorage, atree.Address, uint32) (atree.Storable, error) {
	return FailEnc{}, nil
}
func (FailEnc) Encode(*atree.Encoder) error                        { return ErrInjected }
func (FailEnc) ByteSize() uint32                                   { return 3 }
func (FailEnc) StoredValue(atree.SlabStorage) (atree.Value, error) { return FailEnc{}, nil }
func (FailEnc) ChildStorables() []atree.Storable                   { return nil }
func (FailEnc) CanCopyNonRefSimple() bool                          { return true }
func (FailEnc) CopyNonRefSimple() (atree.Storable, error)          { return FailEnc{}, nil }

// FailTI is a type information whose encoding fails after it wrote something (a fault in the caller-supplied type
// encoder, in the middle of an item).
type FailTI struct{}

func (FailTI) Encode(enc *cbor.StreamEncoder) error {
	_ = enc.EncodeTagHead(tagCompTI)
	return ErrInjected
}
func (FailTI) IsComposite() bool    { return false }
func (FailTI) Copy() atree.TypeInfo { return FailTI{} }

type histResult struct {
	digest  string
	results int
	err     error
	stats   *CaseStats
}

func runHistory(cfg Config, ops []Op, jitter bool) histResult {
	cfg.KeepGlobals = true
	e, err := NewEngine(cfg, Oracles{CmpEvery: 6})
	if err != nil {
		return histResult{err: err}
	}
	if jitter {
		n := 0
		j := func() {
			n++
			if n%3 == 0 {
				runtime.Gosched()
			}
		}
		e.CB.Jitter = j
		e.L.Jitter = j
	}
	e.RecordResults = true
	if err := e.Run(ops); err != nil {
		return histResult{err: err, stats: e.Stats}
	}
	if err := e.Commit(0); err != nil {
		return histResult{err: err, stats: e.Stats}
	}
	if err := e.checkFresh(e.L, e.Roots, "end of history"); err != nil {
		return histResult{err: err, stats: e.Stats}
	}
	return histResult{digest: regsDigest(e.L.Regs), results: len(e.Results), stats: e.Stats}
}

func curCasePath() string { return replayPathFor("C16") + ".current" }

func runC16(pc *PCase) (*CaseStats, error) {
	// the case that is running when a race report kills the process is the replay
	if b, err := json.Marshal(map[string]any{"property": "C16", "failure": "data race reported by the race detector while this case was running", "case": pc}); err == nil {
		_ = os.MkdirAll(ReplayDir(), 0o755)
		_ = os.WriteFile(curCasePath(), b, 0o644)
	}
	old := runtime.GOMAXPROCS(pc.Procs)
	defer runtime.GOMAXPROCS(old)
	ApplyGlobals(pc.Cfg)
	st := newCaseStats()
	cfg := pc.Cfg
	cfg.Roots = pc.Roots
	// sequential twins
	want := make([]histResult, len(pc.Hist))
	for i, h := range pc.Hist {
		c := cfg
		c.Workers = 1
		want[i] = runHistory(c, h, false)
		if want[i].err != nil {
			return st, fmt.Errorf("sequential run of history %d: %w", i, want[i].err)
		}
		for l, n := range want[i].stats.Labels {
			st.Labels[l] += n
		}
	}
	// (b) the same histories concurrently, each on its own storage, parallel commits inside
	got := make([]histResult, len(pc.Hist))
	var wg sync.WaitGroup
	for i := range pc.Hist {
		wg.Add(1)
		go func(i int) {
			defer wg.Done()
			defer func() {
				if r := recover(); r != nil {
					got[i].err = fmt.Errorf("panic in concurrent history %d: %v", i, r)
				}
			}()
			c := cfg
			c.Workers = []int{2, 3, 7, 16, 64}[i%5]
			c.NondetCommit = i%2 == 1
			got[i] = runHistory(c, pc.Hist[i], true)
		}(i)
	}
	wg.Wait()
	for i := range got {
		if got[i].err != nil {
			return st, fmt.Errorf("history %d run concurrently with %d others: %w", i, len(pc.Hist)-1, got[i].err)
		}
		if got[i].digest != want[i].digest || got[i].results != want[i].results {
			return st, fmt.Errorf("history %d run concurrently with %d others ends with register digest %s (%d results), alone it ends with %s (%d results)", i, len(pc.Hist)-1, got[i].digest, got[i].results, want[i].digest, want[i].results)
		}
	}
	st.Add("concurrent_histories", len(pc.Hist))
	if len(pc.Hist) > 1 {
		st.label("concurrent")
	}
	// (a) one large write set committed / preloaded with many workers, with and without faults
	if err := parallelCommitPreload(cfg, pc, st); err != nil {
		return st, err
	}
	return st, nil
}

func parallelCommitPreload(cfg Config, pc *PCase, st *CaseStats) error {
	build := func() (*Engine, error) {
		c := cfg
		c.KeepGlobals = true
		e, err := NewEngine(c, Oracles{})
		if err != nil {
			return nil, err
		}
		ops := []Op{{K: "appN", N: 150, V: &VD{K: "s", Z: 1}}, {K: "msetN", N: 120, P: 3, V: &VD{K: "arr", L: 2, E: &VD{K: "u", N: 1}}}, {K: "commit", N: 1},
			{K: "remN", N: 100, P: 5}, {K: "mremN", N: 80, P: 9}, {K: "appN", N: 40, V: &VD{K: "s", Z: 5}}, {K: "msetN", N: 50, P: 1000, V: &VD{K: "s", Z: 2}}}
		ops = append(ops, pc.Hist[0]...)
		var kept []Op
		for _, op := range ops {
			if op.K == "reopen" || op.K == "evict" || (op.K == "commit" && len(kept) > 4) {
				continue
			}
			kept = append(kept, op)
		}
		for i := range kept {
			e.step, e.curOp = i, &kept[i]
			if err := e.Apply(&kept[i]); err != nil {
				return nil, err
			}
		}
		return e, nil
	}
	ref, err := build()
	if err != nil {
		return fmt.Errorf("building the write set: %w", err)
	}
	dirty := ref.St.DeltasWithoutTempAddresses()
	if err := ref.St.FastCommit(1); err != nil {
		return fmt.Errorf("1-worker commit failed: %v", err)
	}
	st.Add("dirty_slabs", int(dirty))
	if dirty >= 10 {
		st.label("write_set>=10")
	}
	for _, w := range []int{2, 3, 7, 16, 64} {
		for _, nondet := range []bool{false, true} {
			e, err := build()
			if err != nil {
				return err
			}
			inject := func(e *Engine) error {
				switch pc.Fault {
				case 1:
					e.L.FailAt = map[int]bool{e.L.Writes + 1 + int(dirty)/2: true}
				case 2:
					// make one dirty slab unencodable: a root array (even worker counts: a root map) gets an element
					// whose encoder fails after other elements of the same slab were encoded
					for _, r := range e.Roots {
						if err := e.acquire(r); err != nil {
							return err
						}
						// in every second case the unencodable thing is not an element but the type information of an inlined
						// child (encoded through the pooled type-id encoder)
						var bad atree.Value = FailEnc{}
						if len(pc.Hist)%2 == 0 {
							child, err := atree.NewArray(e.St, r.Addr, FailTI{})
							if err != nil {
								return fmt.Errorf("NewArray failed: %v", err)
							}
							if err := child.Append(U64(1)); err != nil {
								return fmt.Errorf("Append failed: %v", err)
							}
							bad = child
						}
						if !r.IsMap && w%2 == 1 {
							if err := r.HA.Append(bad); err != nil {
								return fmt.Errorf("Append failed: %v", err)
							}
							break
						}
						if r.IsMap && r.Dig == nil && w%2 == 0 {
							for k := uint64(0); k < 4; k++ { // several keys: at least one is not the first of its slab
								if k > 0 {
									bad = FailEnc{}
								}
								if _, err := r.HM.Set(e.CB.Compare, e.CB.HashInput, U64(5550000+k), bad); err != nil {
									return fmt.Errorf("Set failed: %v", err)
								}
							}
							break
						}
					}
				}
				return nil
			}
			if err := inject(e); err != nil {
				return err
			}
			// a second, healthy storage whose commit directly follows a failing one (same goroutine, no
			// garbage collection in between, so that pooled encoder state is handed over)
			var victim *Engine
			if pc.Fault == 2 {
				if victim, err = build(); err != nil {
					return err
				}
			}
			gc := debug.SetGCPercent(-1)
			var cerr error
			if nondet {
				cerr = e.St.NondeterministicFastCommit(w)
			} else {
				cerr = e.St.FastCommit(w)
			}
			if pc.Fault == 2 && cerr != nil {
				// the caller carries on right after the failed commit: it touches its containers again
				// (no worker of the failed commit may still be reading them) ...
				for _, r := range e.Roots {
					if r.HasHandle() && !r.IsMap {
						_ = r.HA.Append(U64(7))
					} else if r.HasHandle() && r.IsMap && r.Dig == nil {
						_, _ = r.HM.Set(e.CB.Compare, e.CB.HashInput, U64(987654321), U64(1))
					}
				}
				// ... and an unrelated storage commits: it must get exactly the registers it gets alone
				verr := victim.St.FastCommit(1)
				debug.SetGCPercent(gc)
				if verr != nil {
					return fmt.Errorf("commit of an unrelated storage right after a failed commit (encoder error) of another one failed: %v", verr)
				}
				if d := DiffRegs(ref.L.Regs, victim.L.Regs); d != "" {
					return fmt.Errorf("commit of an unrelated storage right after a failed commit (encoder error) of another one wrote different registers than alone: %s", d)
				}
				st.label("commit_after_foreign_encode_failure")
			} else {
				debug.SetGCPercent(gc)
			}
			if pc.Fault != 0 {
				if cerr == nil || !errors.Is(cerr, ErrInjected) {
					// fault 2 needs an array root; without one the commit succeeds
					hasArr := false
					for _, r := range e.Roots {
						hasArr = hasArr || !r.IsMap
					}
					if pc.Fault == 1 || hasArr {
						return fmt.Errorf("commit with %d workers (order-relaxed=%v) and an injected failure returned %v", w, nondet, cerr)
					}
				}
				st.label("parallel_commit_with_fault")
				if !nondet && cerr != nil {
					// the deterministic commit fails the same way on one goroutine: same error class, and the registers it
					// leaves behind do not depend on the number of workers or on the order in which encodings arrive
					e1, err := build()
					if err != nil {
						return err
					}
					if err := inject(e1); err != nil {
						return err
					}
					cerr1 := e1.St.FastCommit(1)
					if cerr1 == nil || isExternal(cerr1) != isExternal(cerr) || isFatal(cerr1) != isFatal(cerr) || isUser(cerr1) != isUser(cerr) {
						return fmt.Errorf("failing commit: %d workers returned %v, 1 worker returned %v", w, cerr, cerr1)
					}
					if d := DiffRegs(e1.L.Regs, e.L.Regs); d != "" {
						return fmt.Errorf("a failed deterministic commit (fault kind %d) with %d workers left other registers behind than with 1 worker: %s", pc.Fault, w, d)
					}
					if a, b := e1.St.DeltasWithoutTempAddresses(), e.St.DeltasWithoutTempAddresses(); a != b && pc.Fault != 2 {
						return fmt.Errorf("a failed deterministic commit with %d workers leaves %d slabs pending, with 1 worker %d", w, b, a)
					}
					st.label("failed_commit_equals_one_worker")
				}
				continue
			}
			if cerr != nil {
				return fmt.Errorf("commit with %d workers (order-relaxed=%v) failed: %v", w, nondet, cerr)
			}
			if d := DiffRegs(ref.L.Regs, e.L.Regs); d != "" {
				return fmt.Errorf("commit with %d workers (order-relaxed=%v) wrote different registers than 1 worker: %s", w, nondet, d)
			}
			st.Add("parallel_commits", 1)
		}
		// preload with w workers (in two batches, on a storage that already has something cached) ==
		// preload on one goroutine (identifier by identifier: the sequential path)
		s1, sw := NewStorage(ref.L), NewStorage(ref.L)
		keys := ref.L.Keys()
		if _, _, err := sw.Retrieve(keys[len(keys)-1]); err != nil {
			return fmt.Errorf("Retrieve failed: %v", err)
		}
		if _, _, err := s1.Retrieve(keys[len(keys)-1]); err != nil {
			return fmt.Errorf("Retrieve failed: %v", err)
		}
		for _, id := range keys {
			if err := s1.BatchPreload([]atree.SlabID{id}, 1); err != nil {
				return fmt.Errorf("preload with 1 worker failed: %v", err)
			}
		}
		cut := len(keys) / 3
		if cut < 12 && len(keys) > 12 {
			cut = 12
		}
		if cut > len(keys) {
			cut = len(keys)
		}
		if err := sw.BatchPreload(keys[:cut], w); err != nil {
			return fmt.Errorf("preload with %d workers failed: %v", w, err)
		}
		if err := sw.BatchPreload(keys[cut:], w); err != nil {
			return fmt.Errorf("preload with %d workers failed: %v", w, err)
		}
		for _, id := range keys {
			a, b := s1.RetrieveIfLoaded(id), sw.RetrieveIfLoaded(id)
			if a == nil || b == nil {
				return fmt.Errorf("preload with %d workers: slab %s loaded=%v, with 1 worker loaded=%v", w, id, b != nil, a != nil)
			}
			ea, err1 := atree.EncodeSlab(a, EncMode)
			eb, err2 := atree.EncodeSlab(b, EncMode)
			if err1 != nil || err2 != nil || string(ea) != string(eb) {
				return fmt.Errorf("preload with %d workers decodes slab %s differently than with 1 worker", w, id)
			}
		}
		st.Add("parallel_preloads", 1)
		// a batch with one register that cannot be decoded, and a batch during which one ledger read fails: the same
		// kind of error for every worker count, no decoder goroutine left behind or crashing, storage still usable
		if len(keys) >= 12 {
			bad := ref.L.Clone()
			victimID := keys[len(keys)-1]
			if pc.Fault == 1 {
				victimID = keys[len(keys)/2]
			}
			bad.Regs[victimID] = bad.Regs[victimID][:len(bad.Regs[victimID])/2]
			cls1 := ""
			for _, ww := range []int{1, w} {
				sb := NewStorage(bad)
				err := sb.BatchPreload(keys, ww)
				if err == nil {
					return fmt.Errorf("preload with %d workers of a batch with an undecodable register returned no error", ww)
				}
				// (a truncated register fails in the library's decoder or in the caller-supplied element decoder: the class
				// of the error depends on where the cut falls, but not on the number of workers)
				cls := fmt.Sprintf("%v/%v/%v", isUser(err), isFatal(err), isExternal(err))
				if ww == 1 {
					cls1 = cls
				} else if cls != cls1 {
					return fmt.Errorf("preload of a batch with an undecodable register: %d workers returned %v, 1 worker an error of another class (%s vs %s)", ww, err, cls, cls1)
				}
				if _, _, err := sb.Retrieve(keys[0]); err != nil {
					return fmt.Errorf("storage unusable after a failed preload with %d workers: %v", ww, err)
				}
				lf := ref.L.Clone()
				lf.FailRead = 1 + len(keys)/3
				sf := NewStorage(lf)
				err = sf.BatchPreload(keys, ww)
				if err == nil || !isExternal(err) || !errors.Is(err, ErrInjected) {
					return fmt.Errorf("preload with %d workers during which a ledger read fails returned %v (expected an external error wrapping the ledger's)", ww, err)
				}
				lf.FailRead = 0
				if _, _, err := sf.Retrieve(keys[0]); err != nil {
					return fmt.Errorf("storage unusable after a failed preload with %d workers: %v", ww, err)
				}
			}
			st.Add("failing_preloads", 1)
		}
	}
	return nil
}

func init() {
	hg := &GenCfg{
		MinOps: 1, MaxOps: 30,
		W: map[string]int{
			"app": 8, "ins": 5, "set": 6, "rem": 7, "get": 2, "pop": 1, "appN": 6, "remN": 3,
			"mset": 14, "mget": 3, "mhas": 2, "mrem": 8, "mpop": 1, "msetN": 7, "mremN": 3, "styp": 1,
			"reopen": 2, "commit": 4, "evict": 1,
		},
		MaxBulk: 80, ValW: valAll, MaxDepth: 2, MaxElems: 4, AcqW: [3]int{8, 1, 1},
	}
	register(&PropDef{
		ID:  "C16",
		New: func() any { return &PCase{} },
		Gen: func(t *rapid.T) any {
			pc := &PCase{Prop: "C16"}
			pc.Cfg.Slab = rapid.SampledFrom([]uint32{256, 256, 512, 1024}).Draw(t, "slab")
			pc.Cfg.Keys = rapid.SampledFrom([]int{16, 64, 300}).Draw(t, "keys")
			pc.Procs = rapid.SampledFrom([]int{1, 2, 4, 16}).Draw(t, "procs")
			if rapid.Bool().Draw(t, "hipgroups") {
				pc.Cfg.HipGroups = 64 // default-digester collisions: the pooled digesters compute their BLAKE3 levels
			}
			pc.Roots = []RootSpec{{K: "arr", Addr: 1, TI: 1}, {K: "map", Addr: 2, TI: 2}}
			pc.Fault = rapid.SampledFrom([]int{0, 0, 1, 2}).Draw(t, "fault")
			g := rapid.SampledFrom([]int{1, 2, 4, 8, 16}).Draw(t, "g")
			for i := 0; i < g; i++ {
				n := rapid.IntRange(1, hg.MaxOps).Draw(t, "nops")
				h := make([]Op, n)
				for j := range h {
					h[j] = hg.genOp(t)
				}
				pc.Hist = append(pc.Hist, h)
			}
			return pc
		},
		Run:        func(c any) (*CaseStats, error) { return runC16(c.(*PCase)) },
		Nontrivial: func(s *CaseStats) bool { return s.Has("concurrent") && s.Has("write_set>=10") },
		Rule:       ">=2 histories (maps with the default digester, nested inlined children) run concurrently on their own storages with parallel commits inside, plus a write set of >=10 dirty slabs committed and preloaded with 2..64 workers (with injected ledger/encoder failures in some cases), all under the race detector",
		Slab:       func(c any) uint32 { return c.(*PCase).Cfg.Slab },
	})
}
