package harness

// c13.go: iterators — partially loaded containers, mutation during mutable
// iteration, pop order.  The non-destructive battery is in iter.go.

import (
	"fmt"

	"github.com/onflow/atree"
)

func isRefStorable(s atree.Storable) (atree.SlabID, bool) {
	if id, ok := unwrapStorable(s).(atree.SlabIDStorable); ok {
		return atree.SlabID(id), true
	}
	return atree.SlabID{}, false
}

// checkPartialLoad: commit, open every root in a new storage, load a generated subset of its slabs
// and require the loaded-value iterator to yield exactly the elements whose slabs are loaded, in order.
func (e *Engine) checkPartialLoad(salt uint64) error {
	if err := e.Commit(0); err != nil {
		return err
	}
	for _, r := range e.Roots {
		if r.Addr == atree.AddressUndefined {
			continue
		}
		ref := newWalk(NewStorage(e.L))
		rootSI, err := ref.visit(r.Root, nil, false)
		if err != nil {
			return e.viol("%v", err)
		}
		// which subsets of the non-root slabs are loaded: a generated one, and for small trees every subset
		const randomMask = ^uint64(0)
		masks := []uint64{randomMask}
		nonRoot := len(ref.Order) - 1
		lim := 5
		if thorough() {
			lim = 8
		}
		if nonRoot >= 1 && nonRoot <= lim {
			for m := uint64(0); m < 1<<uint(nonRoot); m++ {
				masks = append(masks, m)
			}
			e.Stats.label("partial_load_all_subsets")
			e.Stats.Add("partial_load_subsets", 1<<uint(nonRoot))
		}
		for _, mask := range masks {
			st := NewStorage(e.L)
			loaded := map[atree.SlabID]bool{r.Root: true}
			var toLoad []atree.SlabID
			j := 0
			for _, si := range ref.Order {
				if si.ID == r.Root {
					continue
				}
				sel := mix64(salt^si.ID.IndexAsUint64()*0x9E3779B97F4A7C15)%10 < 6
				if mask != randomMask {
					sel = mask>>uint(j)&1 == 1
				}
				j++
				if sel {
					loaded[si.ID] = true
					toLoad = append(toLoad, si.ID)
				}
			}
			var got []atree.Value
			var gotK []atree.Value
			if r.IsMap {
				m, err := atree.NewMapWithRootID(st, r.Root, e.digesterFor(r))
				if err != nil {
					return e.viol("partial load: cannot open root: %v", err)
				}
				for _, id := range toLoad {
					if _, _, err := st.Retrieve(id); err != nil {
						return e.viol("partial load: %v", err)
					}
				}
				err = m.IterateReadOnlyLoadedValues(func(k, v atree.Value) (bool, error) {
					gotK = append(gotK, k)
					got = append(got, v)
					return true, nil
				})
				if err != nil {
					return e.viol("loaded-value iteration of a partially loaded map failed: %v", err)
				}
				order := e.expectedOrder(r, m.Seed())
				var want []string
				pos := 0
				var leafWalk func(si *SI) error
				var pairs func(items []atree.Storable, yield bool, owner *SI) error
				pairs = func(items []atree.Storable, yield bool, owner *SI) error {
					for i := 0; i < len(items); {
						if id, isRef := items[i].(atree.SlabIDStorable); isRef {
							if g, ok := ref.Slabs[atree.SlabID(id)]; ok && g.Kind == kCollGroup {
								if err := pairs(g.Slab.ChildStorables(), yield && loaded[g.ID], g); err != nil {
									return err
								}
								i++
								continue
							}
						}
						if i+1 >= len(items) {
							return fmt.Errorf("odd number of child storables in %s", owner.ID)
						}
						y := yield
						if id, isRef := isRefStorable(items[i]); isRef && !loaded[id] {
							y = false
						}
						if id, isRef := isRefStorable(items[i+1]); isRef && !loaded[id] {
							y = false
						}
						if pos >= len(order) {
							return fmt.Errorf("tree holds more entries than the model")
						}
						if y {
							want = append(want, order[pos])
						}
						pos++
						i += 2
					}
					return nil
				}
				leafWalk = func(si *SI) error {
					if si.Kind == kMapMeta {
						for _, k := range si.Kids {
							if loaded[k.ID] {
								if err := leafWalk(k); err != nil {
									return err
								}
							} else {
								pos += int(countEntriesUnder(k))
							}
						}
						return nil
					}
					return pairs(si.Slab.ChildStorables(), true, si)
				}
				if err := leafWalk(rootSI); err != nil {
					return e.viol("partial load: %v", err)
				}
				if len(got) != len(want) {
					return e.viol("partially loaded map#%d (%d of %d slabs loaded): iterator yields %d entries, expected %d", r.ID, len(loaded), len(ref.Order), len(got), len(want))
				}
				for i := range got {
					ck, err := canonOfValue(gotK[i])
					if err != nil || ck != want[i] {
						return e.viol("partially loaded map#%d: position %d holds key %v, expected %s", r.ID, i, gotK[i], short(want[i]))
					}
					if err := cmpValue(got[i], r.Ents[ck].V, fmt.Sprintf("partially loaded map#%d value of %s", r.ID, short(ck)), CmpOpts{Hip: e.CB.PlainHIP}); err != nil {
						return e.viol("%v", err)
					}
				}
				if len(want) < len(order) {
					e.Stats.label("partial_load_skipped_elements")
				}
				e.Stats.label("partial_load_checked")
				continue
			}
			a, err := atree.NewArrayWithRootID(st, r.Root)
			if err != nil {
				return e.viol("partial load: cannot open root: %v", err)
			}
			for _, id := range toLoad {
				if _, _, err := st.Retrieve(id); err != nil {
					return e.viol("partial load: %v", err)
				}
			}
			err = a.IterateReadOnlyLoadedValues(func(v atree.Value) (bool, error) {
				got = append(got, v)
				return true, nil
			})
			if err != nil {
				return e.viol("loaded-value iteration of a partially loaded array failed: %v", err)
			}
			var want []int
			pos := 0
			var leafWalk func(si *SI)
			leafWalk = func(si *SI) {
				if si.Kind == kArrMeta {
					for _, k := range si.Kids {
						if loaded[k.ID] {
							leafWalk(k)
						} else {
							pos += int(k.Count)
						}
					}
					return
				}
				for _, el := range si.Slab.ChildStorables() {
					if id, isRef := isRefStorable(el); !isRef || loaded[id] {
						want = append(want, pos)
					}
					pos++
				}
			}
			leafWalk(rootSI)
			if len(got) != len(want) {
				return e.viol("partially loaded array#%d (%d of %d slabs loaded): iterator yields %d elements, expected %d", r.ID, len(loaded), len(ref.Order), len(got), len(want))
			}
			for i := range got {
				if err := cmpValue(got[i], r.Elems[want[i]], fmt.Sprintf("partially loaded array#%d element %d", r.ID, want[i]), CmpOpts{Hip: e.CB.PlainHIP}); err != nil {
					return e.viol("%v", err)
				}
			}
			if len(want) < len(r.Elems) {
				e.Stats.label("partial_load_skipped_elements")
			}
			e.Stats.label("partial_load_checked")
		}
	}
	return nil
}

// countEntriesUnder counts the key/value pairs stored under a map slab, external groups included.
func countEntriesUnder(si *SI) uint64 {
	n := uint64(0)
	switch si.Kind {
	case kMapMeta:
		for _, k := range si.Kids {
			n += countEntriesUnder(k)
		}
	case kMapData, kCollGroup:
		n = si.Count
		for _, k := range si.Kids {
			if k.Kind == kCollGroup && !k.NestedGroup {
				n += countEntriesUnder(k)
			}
		}
	}
	return n
}

// mutateWhileIterating: overwrite current elements / mutate nested containers during mutable iteration.
func (e *Engine) mutateWhileIterating(salt uint64) error {
	for ri, r := range e.Roots {
		if err := e.acquire(r); err != nil {
			return err
		}
		e.curOp = &Op{K: "iter-mutate", T: uint(ri)}
		if r.IsMap {
			if r.TI.Comp {
				continue
			}
			order := e.expectedOrder(r, r.HM.Seed())
			i := 0
			var ferr error
			err := r.HM.Iterate(e.CB.Compare, e.CB.HashInput, func(k, v atree.Value) (bool, error) {
				if i >= len(order) {
					ferr = e.viol("mutable iteration with in-flight mutation yields more than %d entries", len(order))
					return false, nil
				}
				ck, err := canonOfValue(k)
				if err != nil || ck != order[i] {
					ferr = e.viol("mutable iteration with in-flight mutation: position %d holds key %v, expected %s (an element was skipped or repeated)", i, k, short(order[i]))
					return false, nil
				}
				ent := r.Ents[ck]
				if err := cmpValue(v, ent.V, fmt.Sprintf("iterated value of %s", short(ck)), e.co()); err != nil {
					ferr = e.viol("%v", err)
					return false, nil
				}
				ferr = e.inFlightMutation(r, i, ck, v, salt)
				i++
				return ferr == nil, nil
			})
			if err != nil {
				return e.viol("mutable map iteration failed: %v", err)
			}
			if ferr != nil {
				return ferr
			}
			if i != len(order) {
				return e.viol("mutable iteration with in-flight mutation visited %d of %d entries", i, len(order))
			}
		} else {
			i := 0
			total := len(r.Elems)
			var ferr error
			err := r.HA.Iterate(func(v atree.Value) (bool, error) {
				if i >= total {
					ferr = e.viol("mutable iteration with in-flight mutation yields more than %d elements", total)
					return false, nil
				}
				if err := cmpValue(v, r.Elems[i], fmt.Sprintf("iterated element %d", i), e.co()); err != nil {
					ferr = e.viol("%v (an element was skipped or repeated?)", err)
					return false, nil
				}
				ferr = e.inFlightMutation(r, i, "", v, salt)
				i++
				return ferr == nil, nil
			})
			if err != nil {
				return e.viol("mutable array iteration failed: %v", err)
			}
			if ferr != nil {
				return ferr
			}
			if i != total {
				return e.viol("mutable iteration with in-flight mutation visited %d of %d elements", i, total)
			}
		}
		e.Stats.label("iterated_with_mutation")
	}
	e.curOp = nil
	return nil
}

// inFlightMutation mutates the element the mutable iterator just returned.
func (e *Engine) inFlightMutation(r *Node, i int, ck string, v atree.Value, salt uint64) error {
	h := mix64(salt + uint64(i)*0x9E3779B97F4A7C15)
	var cur MV
	if r.IsMap {
		cur = r.Ents[ck].V
	} else {
		cur = r.Elems[i]
	}
	switch h % 4 {
	case 0: // overwrite the current element with a value of another size
		vd := &VD{K: "s", Z: int(h>>8) % 8, N: h >> 16 % 1000}
		if (h>>4)%3 == 0 {
			vd = &VD{K: "arr", N: 1, L: int(h>>12) % 6, E: &VD{K: "s", Z: 1, N: h % 100}}
		}
		e.Stats.label("overwrite_during_iteration")
		if r.IsMap {
			return e.mapSet(r, r.Ents[ck].K, vd, false)
		}
		nv, nm, err := e.mk(vd, r.Addr, e.MaxArrElem, 1)
		if err != nil {
			return err
		}
		old, err := r.HA.Set(uint64(i), nv)
		if err != nil {
			return e.viol("Set(%d) during mutable iteration failed: %v", i, err)
		}
		r.Elems[i] = nm
		e.adopt(r, nm)
		return e.handBack(old, cur, false, fmt.Sprintf("Set(%d) during iteration: previous element", i))
	case 1: // mutate a nested container through the handle the iterator returned
		c := nodeOf(cur)
		if c == nil {
			return nil
		}
		retire(c)
		if err := e.setHandle(c, v); err != nil {
			return err
		}
		e.Stats.label("child_mutated_during_iteration")
		n := 1 + int(h>>8)%12
		if c.IsMap {
			if c.TI.Comp {
				return nil
			}
			return e.mapOp(c, &Op{K: "msetN", P: h >> 20, N: n, V: &VD{K: "s", Z: 1}})
		}
		return e.arrayOp(c, &Op{K: "appN", N: n, V: &VD{K: "s", Z: 1}})
	}
	return nil
}

func init() {
	g := func() *GenCfg {
		g := scale(&GenCfg{
			Slabs: quickSlabs, MinOps: 2, MaxOps: 40,
			W: map[string]int{
				"app": 8, "ins": 6, "set": 6, "rem": 7, "appN": 8, "remN": 4, "pop": 1,
				"mset": 12, "mrem": 8, "msetN": 8, "mremN": 3, "mpop": 1,
				"reopen": 2, "commit": 1, "evict": 1, "reget": 1, "grow": 1, "mgrow": 1, "shrink": 1, "mshrink": 1,
			},
			Roots: [][]RootSpec{
				{{K: "arr", Addr: 1, TI: 1}},
				{{K: "map", Addr: 1, TI: 2}},
				{{K: "arr", Addr: 1, TI: 1}, {K: "map", Addr: 2, TI: 2}},
			},
			MaxBulk: 100, Keys: []int{12, 64, 300},
			ValW: valAll, MaxDepth: 2, MaxElems: 5, AcqW: [3]int{8, 1, 1},
			CollLimits: []uint32{255},
		})
		g.DigRootsPct = 40
		g.HipGroupsPct = 25
		return g
	}
	registerEngine(engPropSpec{
		ID: "C13", G: g,
		Or: func(*Case) Oracles { return Oracles{CmpEvery: 5, Iter: true, PopOrder: true} },
		Post: func(e *Engine, cs *Case) error {
			salt := uint64(len(cs.Ops))*7919 + uint64(cs.Cfg.Slab)
			if err := e.checkPartialLoad(salt); err != nil {
				return err
			}
			if err := e.mutateWhileIterating(salt); err != nil {
				return err
			}
			if err := e.CompareAll(); err != nil {
				return err
			}
			if err := e.VerifyAll(); err != nil {
				return err
			}
			if err := e.checkIterators(); err != nil {
				return err
			}
			if err := endCommitFresh(e, cs); err != nil {
				return err
			}
			if err := e.readOnlyMutationScenario(salt); err != nil {
				return err
			}
			return e.emptyEverything()
		},
		Non: func(s *CaseStats) bool {
			return s.Has("multi_slab") && s.Has("iterated_with_mutation") && s.Has("partial_load_checked") &&
				(s.Has("overwrite_during_iteration") || s.Has("child_mutated_during_iteration"))
		},
		Rule: "multi-slab container; iterator battery run on intermediate states; final state iterated with in-flight overwrites / child mutations and with a random subset of slabs loaded",
	})
}
