package harness

// digest.go: generated (adversarial) digesters for root maps (C12), the
// collision-limit rule, and the expected canonical iteration order (C13).

import (
	"encoding/binary"
	"fmt"
	"sort"

	"github.com/fxamacker/circlehash"
	"github.com/zeebo/blake3"

	"github.com/onflow/atree"
)

// DigSpec describes a generated digester: 1..4 levels, an alphabet size per
// level (0 = full 64 bits) and a salt.
type DigSpec struct {
	Levels int       `json:"levels"`
	Alpha  [4]uint64 `json:"alpha"`
	Salt   uint64    `json:"salt"`
	// Top[l]: the digests of level l are counted down from the largest 64-bit value instead of up from zero, so
	// that the extremes (0xFFFF...FF, and its neighbours) occur as digests
	Top [4]bool `json:"top,omitempty"`
}

func mix64(x uint64) uint64 {
	x ^= x >> 30
	x *= 0xbf58476d1ce4e5b9
	x ^= x >> 27
	x *= 0x94d049bb133111eb
	x ^= x >> 31
	return x
}

func (d *DigSpec) digest(canon string, level int) uint64 {
	h := uint64(1469598103934665603) ^ d.Salt
	for i := 0; i < len(canon); i++ {
		h ^= uint64(canon[i])
		h *= 1099511628211
	}
	h = mix64(h + uint64(level)*0x9E3779B97F4A7C15)
	if a := d.Alpha[level]; a != 0 {
		h %= a
	}
	if d.Top[level] {
		h = ^uint64(0) - h
	}
	return h
}

func (d *DigSpec) tuple(canon string) []uint64 {
	t := make([]uint64, d.Levels)
	for l := 0; l < d.Levels; l++ {
		t[l] = d.digest(canon, l)
	}
	return t
}

type genDigesterBuilder struct{ spec *DigSpec }

func newGenDigesterBuilder(s *DigSpec) atree.DigesterBuilder { return &genDigesterBuilder{spec: s} }

func (b *genDigesterBuilder) SetSeed(uint64, uint64) {}
func (b *genDigesterBuilder) Digest(hip atree.HashInputProvider, v atree.Value) (atree.Digester, error) {
	// the hash-input provider is a caller-supplied component: call it like the default builder does
	if _, err := hip(v, nil); err != nil {
		return nil, err
	}
	c, err := canonOfValue(v)
	if err != nil {
		return nil, err
	}
	t := b.spec.tuple(c)
	ds := make([]atree.Digest, len(t))
	for i := range t {
		ds[i] = atree.Digest(t[i])
	}
	return &genDigester{d: ds}, nil
}

type genDigester struct{ d []atree.Digest }

func (g *genDigester) DigestPrefix(level uint) ([]atree.Digest, error) {
	if level > uint(len(g.d)) {
		return nil, fmt.Errorf("digest level %d out of bounds", level)
	}
	return g.d[:level], nil
}
func (g *genDigester) Digest(level uint) (atree.Digest, error) {
	if level >= uint(len(g.d)) {
		return 0, fmt.Errorf("digest level %d out of bounds", level)
	}
	return g.d[level], nil
}
func (g *genDigester) Reset()       {}
func (g *genDigester) Levels() uint { return uint(len(g.d)) }

// expectRefusal applies the collision-limit rule of C12 to inserting absent key km into root map n.
func (e *Engine) expectRefusal(n *Node, km MV) bool {
	if n.Dig == nil {
		return false
	}
	limit := uint64(255)
	if e.Cfg.CollSet {
		limit = uint64(e.Cfg.CollLimit)
	}
	d0 := n.Dig.digest(canonKey(km), 0)
	group := 0
	l1 := map[uint64]bool{}
	for ck := range n.Ents {
		if n.Dig.digest(ck, 0) != d0 {
			continue
		}
		group++
		if n.Dig.Levels > 1 {
			l1[n.Dig.digest(ck, 1)] = true
		}
	}
	if group == 0 {
		return false
	}
	distinct := uint64(group)
	if n.Dig.Levels > 1 {
		distinct = uint64(len(l1))
	}
	return distinct-1 >= limit
}

// expectedOrder returns the canonical keys of map node n in the order every iterator must produce:
// ascending digest tuple, fully colliding keys in insertion order.
func (e *Engine) expectedOrder(n *Node, seed uint64) []string {
	type ke struct {
		k string
		t []uint64
		s int
	}
	ks := make([]ke, 0, len(n.Ents))
	for k, ent := range n.Ents {
		var t []uint64
		if n.Dig != nil {
			t = n.Dig.tuple(k)
		} else {
			t = e.defaultDigests(keyValue(ent.K), seed)
		}
		ks = append(ks, ke{k, t, n.Ins[k]})
	}
	sort.Slice(ks, func(i, j int) bool {
		a, b := ks[i], ks[j]
		for l := range a.t {
			if a.t[l] != b.t[l] {
				return a.t[l] < b.t[l]
			}
		}
		return a.s < b.s
	})
	out := make([]string, len(ks))
	for i := range ks {
		out[i] = ks[i].k
	}
	return out
}

// defaultDigests recomputes the default digester's four levels for key v:
// CircleHash64f(seed) of the hash input, then the first three 64-bit words of BLAKE3-256.
func (e *Engine) defaultDigests(v atree.Value, seed uint64) []uint64 {
	msg, err := e.CB.Msg(v, nil)
	if err != nil {
		panic(err)
	}
	sum := blake3.Sum256(msg)
	return []uint64{
		circlehash.Hash64(msg, seed),
		binary.BigEndian.Uint64(sum[0:]),
		binary.BigEndian.Uint64(sum[8:]),
		binary.BigEndian.Uint64(sum[16:]),
	}
}
