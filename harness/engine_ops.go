package harness

// engine_ops.go: interpretation of the individual operations.

import (
	"errors"
	"fmt"
	"math"

	"github.com/onflow/atree"
)

// storedSize is the encoded size of the storable a scalar model value gets in a slot with the given limit.
func storedSize(m MV, limit uint32) uint32 {
	switch x := m.(type) {
	case U64:
		return x.ByteSize()
	case Str:
		if sz := x.ByteSize(); sz <= limit {
			return sz
		}
		return atree.SlabIDStorable{}.ByteSize()
	case MSome:
		levels := uint64(wrapLevels(x))
		in := MV(x)
		for i := uint64(0); i < levels; i++ {
			in = in.(MSome).V
		}
		p := somePrefixSize(levels)
		l := uint32(0)
		if limit > p {
			l = limit - p
		}
		return p + storedSize(in, l)
	}
	return 0
}

func (e *Engine) rec(format string, args ...any) {
	if e.RecordResults {
		e.Results = append(e.Results, fmt.Sprintf(format, args...))
	}
}

// Run interprets the whole op list and the final checks.
func (e *Engine) Run(ops []Op) error {
	for i := range ops {
		e.step = i
		e.curOp = &ops[i]
		if err := e.Apply(&ops[i]); err != nil {
			return err
		}
		if err := e.afterStep(); err != nil {
			return err
		}
	}
	e.step = len(ops)
	e.curOp = nil
	return e.Finish()
}

// Apply interprets one op.
func (e *Engine) Apply(op *Op) error {
	e.Stats.Ops++
	switch op.K {
	// ------------------------------------------------------------ arrays
	case "app", "ins", "set", "rem", "get", "pop", "appN", "remN", "setN", "grow", "shrink", "reset", "badget", "badset", "badins", "badrem":
		n := e.pick(op.T, false, true)
		if n == nil {
			e.Stats.Skipped++
			return nil
		}
		if err := e.handle(n, op.A); err != nil {
			return err
		}
		e.noteTarget(n)
		return e.withIsolation(n, func() error { return e.arrayOp(n, op) })
	// ------------------------------------------------------------ maps
	case "mset", "mget", "mhas", "mrem", "mpop", "msetN", "mremN", "mupdN", "mgrow", "mshrink", "mreset", "mbadget", "mbadrem", "mbadhas":
		n := e.pick(op.T, true, false)
		if n == nil {
			e.Stats.Skipped++
			return nil
		}
		if err := e.handle(n, op.A); err != nil {
			return err
		}
		e.noteTarget(n)
		return e.withIsolation(n, func() error { return e.mapOp(n, op) })
	case "styp":
		n := e.pick(op.T, true, true)
		if n == nil {
			e.Stats.Skipped++
			return nil
		}
		if err := e.handle(n, op.A); err != nil {
			return err
		}
		e.noteTarget(n)
		ti := TI{N: e.typeNum(op.P, 8), Comp: n.TI.Comp}
		var err error
		if n.IsMap {
			err = n.HM.SetType(ti)
		} else {
			err = n.HA.SetType(ti)
		}
		if err != nil {
			return e.viol("SetType failed: %v", err)
		}
		n.TI = ti
		e.Stats.label("set_type")
		if n.Parent != nil {
			e.Stats.label("set_type_nested")
		}
		return nil
	case "reget":
		n := e.pick(op.T, true, true)
		if n == nil {
			e.Stats.Skipped++
			return nil
		}
		mode := op.A
		if mode == 0 {
			mode = 1
		}
		return e.reacquire(n, mode)
	// ------------------------------------------------------------ schedule
	case "commit":
		return e.Commit(op.N)
	case "reopen":
		return e.Reopen(op.N)
	case "evict":
		return e.Evict(op.N)
	case "crashchk":
		return e.CrashCheck()
	// ------------------------------------------------------------ detached roots (C11)
	case "reattach":
		return e.reattach(op)
	case "drop":
		return e.dropDetached(op)
	case "nop":
		return nil
	case "f7probe":
		// never generated: the history of known finding F7 (known/F7.json)
		return e.f7probe(op.N)
	case "badrange", "badid", "badreopen", "mbadset":
		return e.rejectedOp(op)
	}
	return fmt.Errorf("verif: unknown op %q", op.K)
}

func (e *Engine) noteTarget(n *Node) {
	if n.Parent != nil {
		e.Stats.label("op_on_nested")
		d := 0
		for p := n.Parent; p != nil; p = p.Parent {
			d++
		}
		if d >= 2 {
			e.Stats.label("op_on_depth>=2")
		}
		if d >= 3 {
			e.Stats.label("op_on_depth>=3")
		}
		if n.HandleStep < e.step && n.ParentShape != n.Parent.Shape {
			e.Stats.label("old_handle_after_parent_restructure")
		}
	}
	if n.Detached {
		e.Stats.label("op_on_detached")
		if n.HandleStep < e.step {
			e.Stats.label("stale_handle_on_detached")
		}
	}
}

func (e *Engine) adopt(parent *Node, m MV) {
	if c := nodeOf(m); c != nil {
		c.Parent = parent
		c.ParentShape = parent.Shape
		c.HandleParentGen = parent.Gen // the handle from insertion is bound to the parent's current handle object
	}
}

// ---------------------------------------------------------------- array ops

func (e *Engine) arrayOp(n *Node, op *Op) error {
	a := n.HA
	cnt := uint64(len(n.Elems))
	if a.Count() != cnt {
		return e.viol("array #%d count %d before the op, model has %d", n.ID, a.Count(), cnt)
	}
	switch op.K {
	case "ins", "rem", "remN", "appN", "grow", "pop", "setN":
		n.Shape++ // positions of the children shift / slabs split or merge: handles of children are now "older than a restructuring"
	}
	switch op.K {
	case "app", "ins":
		idx := cnt
		if op.K == "ins" {
			idx = op.P % (cnt + 1)
		}
		v, m, err := e.mk(op.V, n.Addr, e.MaxArrElem, e.depthOf(n)+1)
		if err != nil {
			return err
		}
		if op.K == "app" {
			err = a.Append(v)
		} else {
			err = a.Insert(idx, v)
		}
		if err != nil {
			return e.viol("in-range %s at %d/%d failed: %v", op.K, idx, cnt, err)
		}
		n.Elems = append(n.Elems, nil)
		copy(n.Elems[idx+1:], n.Elems[idx:])
		n.Elems[idx] = m
		e.adopt(n, m)
		e.rec("%s ok", op.K)
		return nil

	case "appN":
		for i := 0; i < op.N; i++ {
			vd := e.elemVD(op.V, uint64(i), e.depthOf(n)+1)
			v, m, err := e.mk(vd, n.Addr, e.MaxArrElem, e.depthOf(n)+1)
			if err != nil {
				return err
			}
			if err := a.Append(v); err != nil {
				return e.viol("bulk append %d/%d failed: %v", i, op.N, err)
			}
			n.Elems = append(n.Elems, m)
			e.adopt(n, m)
			if err := e.bulkTick(n, i, op.N); err != nil {
				return err
			}
			a = n.HA // the oracles may have replaced the handle (R1)
		}
		e.rec("appN %d ok", op.N)
		return nil

	case "reset":
		// scenario: a nested container grows out of its parent, is assigned to its own slot again
		// (supported: the library keeps tracking a child whose value id equals the overwritten one)
		// and then shrinks through the same handle - it must be inlined again
		var cands []int
		var cvals []MV
		for i, el := range n.Elems {
			if c := nodeOf(el); c != nil {
				cands = append(cands, i)
				cvals = append(cvals, el)
			}
		}
		if len(cands) == 0 {
			e.Stats.Skipped++
			return nil
		}
		idx := cands[preferWrapped(cvals, op.P)]
		c := nodeOf(n.Elems[idx])
		if err := e.acquire(c); err != nil {
			return err
		}
		a = n.HA // acquiring the child may have re-acquired its ancestors
		// half of the time the child is first grown out of its parent; otherwise it is re-assigned as it is
		// (inlined, usually): an ordinary sequence would not notice "s[i] = s[i]" at all
		if op.P>>10&1 == 0 {
			if err := e.growUntilStandalone(c); err != nil {
				return err
			}
			if childInlined(c) {
				e.Stats.Skipped++
				return nil
			}
		} else if childInlined(c) {
			e.Stats.label("reassign_same_inlined_child")
		}
		var cv atree.Value = c.HA
		if c.IsMap {
			cv = c.HM
		}
		for i := 0; i < wrapLevels(n.Elems[idx]); i++ {
			cv = Some{V: cv}
		}
		old, err := a.Set(uint64(idx), cv)
		if err != nil {
			return e.viol("Set(%d) with the container already stored there failed: %v", idx, err)
		}
		if !storableIsContainer(old, c.VID) {
			return e.viol("Set(%d) with the container already stored there handed back %v", idx, old)
		}
		e.Stats.label("reassign_same_child")
		if wrapLevels(n.Elems[idx]) > 0 {
			e.Stats.label("reassign_same_wrapped_child")
		}
		if op.D == 0 {
			return e.shrinkToFew(c)
		}
		return nil

	case "grow":
		// append enough medium-sized elements to add about 8..63 leaves (reaches index slabs with
		// >= 32 children and a third tree level at every slab size)
		leaves := 8 + int(op.P%56)
		z := 1
		if op.P%5 == 0 {
			// wide: 130..249 leaves of few large elements - one index slab with more than 128 children when the
			// slab size allows it, a fourth tree level when it does not
			leaves = 130 + int(op.P/5%120)
			z = 2
			e.Stats.label("grow_wide")
		}
		el := e.strLen(z, 0, 0, e.MaxArrElem) + 2
		total := leaves * int(e.Cfg.Slab) / el
		if total > 8000 {
			total = 8000
		}
		for i := 0; i < total; i++ {
			v, m, err := e.mk(&VD{K: "s", Z: z, N: op.P + uint64(i)}, n.Addr, e.MaxArrElem, 9)
			if err != nil {
				return err
			}
			if err := a.Append(v); err != nil {
				return e.viol("bulk append %d/%d failed: %v", i, total, err)
			}
			n.Elems = append(n.Elems, m)
			if err := e.bulkTick(n, i, total); err != nil {
				return err
			}
			a = n.HA // the oracles may have replaced the handle (R1)
		}
		e.Stats.label("grow")
		return nil

	case "set":
		if cnt == 0 {
			e.Stats.Skipped++
			return nil
		}
		idx := op.P % cnt
		v, m, err := e.mk(op.V, n.Addr, e.MaxArrElem, e.depthOf(n)+1)
		if err != nil {
			return err
		}
		old, err := a.Set(idx, v)
		if err != nil {
			return e.viol("in-range Set at %d/%d failed: %v", idx, cnt, err)
		}
		prev := n.Elems[idx]
		n.Elems[idx] = m
		e.adopt(n, m)
		return e.handBack(old, prev, op.D == 1, fmt.Sprintf("Set(%d) previous element", idx))

	case "rem":
		if cnt == 0 {
			e.Stats.Skipped++
			return nil
		}
		idx := op.P % cnt
		old, err := a.Remove(idx)
		if err != nil {
			return e.viol("in-range Remove at %d/%d failed: %v", idx, cnt, err)
		}
		prev := n.Elems[idx]
		n.Elems = append(n.Elems[:idx:idx], n.Elems[idx+1:]...)
		e.Stats.label("remove")
		return e.handBack(old, prev, op.D == 1, fmt.Sprintf("Remove(%d) element", idx))

	case "setN":
		// overwrite many spread-out elements (shrinking or growing them in place): leaves underflow and merge,
		// index slabs lose children, all through the Set path
		for i := 0; i < op.N && len(n.Elems) > 0; i++ {
			c := uint64(len(n.Elems))
			idx := (op.P + uint64(i)*7919) % c
			vd := op.V
			if vd == nil || op.D == 2 {
				vd = &VD{K: "u", N: uint64(i)}
			} else {
				vd = e.elemVD(op.V, uint64(i), 9)
			}
			v, m, err := e.mkScalar(vd, n.Addr, e.MaxArrElem)
			if err != nil {
				return err
			}
			old, err := a.Set(idx, v)
			if err != nil {
				return e.viol("in-range Set at %d/%d failed: %v", idx, c, err)
			}
			prev := n.Elems[idx]
			n.Elems[idx] = m
			if err := e.handBack(old, prev, false, fmt.Sprintf("Set(%d) previous element", idx)); err != nil {
				return err
			}
			if err := e.bulkTick(n, i, op.N); err != nil {
				return err
			}
			a = n.HA // the oracles may have replaced the handle (R1)
		}
		e.Stats.label("bulk_overwrite")
		return nil

	case "remN":
		for i := 0; i < op.N && len(n.Elems) > 0; i++ {
			c := uint64(len(n.Elems))
			idx := (op.P + uint64(i)*7919) % c
			if op.D == 2 { // from the back
				idx = c - 1
			} else if op.D == 3 { // from the front
				idx = 0
			}
			old, err := a.Remove(idx)
			if err != nil {
				return e.viol("in-range Remove at %d/%d failed: %v", idx, c, err)
			}
			prev := n.Elems[idx]
			n.Elems = append(n.Elems[:idx:idx], n.Elems[idx+1:]...)
			if err := e.handBack(old, prev, false, fmt.Sprintf("Remove(%d) element", idx)); err != nil {
				return err
			}
			if err := e.bulkTick(n, i, op.N); err != nil {
				return err
			}
			a = n.HA // the oracles may have replaced the handle (R1)
		}
		e.Stats.label("remove")
		e.Stats.label("bulk_remove")
		return nil

	case "shrink":
		// remove 50-99 % of the elements one by one (front / back / middle / scattered), with the structural oracles
		// run DURING the burst: every single removal is an operation, and an invalid intermediate tree (an index slab
		// left below its minimum until the next merge repairs it) must not go unnoticed
		if cnt < 8 {
			e.Stats.Skipped++
			return nil
		}
		total := int(cnt) * (50 + int(op.P%50)) / 100
		mode := op.P >> 8 % 4
		for i := 0; i < total && len(n.Elems) > 0; i++ {
			c := uint64(len(n.Elems))
			var idx uint64
			switch mode {
			case 0:
				idx = 0
			case 1:
				idx = c - 1
			case 2:
				idx = c / 2
			default:
				idx = mix64(op.P+uint64(i)) % c
			}
			old, err := a.Remove(idx)
			if err != nil {
				return e.viol("in-range Remove at %d/%d failed: %v", idx, c, err)
			}
			prev := n.Elems[idx]
			n.Elems = append(n.Elems[:idx:idx], n.Elems[idx+1:]...)
			if err := e.handBack(old, prev, false, fmt.Sprintf("Remove(%d) element", idx)); err != nil {
				return err
			}
			if err := e.bulkTick(n, i, total); err != nil {
				return err
			}
			a = n.HA // the oracles may have replaced the handle (R1)
		}
		e.Stats.label("remove")
		e.Stats.label("bulk_remove")
		e.Stats.label("shrink")
		return nil

	case "get":
		if cnt == 0 {
			e.Stats.Skipped++
			return nil
		}
		idx := op.P % cnt
		v, err := a.Get(idx)
		if err != nil {
			return e.viol("in-range Get at %d/%d failed: %v", idx, cnt, err)
		}
		if err := cmpValue(v, n.Elems[idx], fmt.Sprintf("Get(%d)", idx), e.co()); err != nil {
			return e.viol("%v", err)
		}
		// Get hands out a new handle object for a nested container: it becomes the designated one (R1).
		if c := nodeOf(n.Elems[idx]); c != nil {
			retire(c)
			if err := e.setHandle(c, v); err != nil {
				return err
			}
		}
		e.rec("get %s", modelSummary(n.Elems[idx], 2))
		return nil

	case "pop":
		i := len(n.Elems)
		var ferr error
		err := a.PopIterate(func(s atree.Storable) {
			i--
			if ferr != nil {
				return
			}
			if i < 0 {
				ferr = e.viol("PopIterate yields more than %d elements", len(n.Elems))
				return
			}
			ferr = e.handBack2(s, n.Elems[i], false, true, fmt.Sprintf("PopIterate element %d", i))
		})
		if err != nil {
			return e.viol("PopIterate failed: %v", err)
		}
		if ferr != nil {
			return ferr
		}
		if i != 0 {
			return e.viol("PopIterate yields %d elements, model has %d", len(n.Elems)-i, len(n.Elems))
		}
		n.Elems = nil
		e.Stats.label("pop")
		if n.Parent != nil {
			e.Stats.label("pop_nested")
		}
		return nil

	case "badget":
		idx := badIndex(cnt, op.P, false)
		_, err := a.Get(idx)
		e.Stats.label("rejected")
		return e.expectIndexOOB(err, fmt.Sprintf("Get(%d) of %d", idx, cnt))
	case "badrem":
		idx := badIndex(cnt, op.P, false)
		_, err := a.Remove(idx)
		e.Stats.label("rejected")
		return e.expectIndexOOB(err, fmt.Sprintf("Remove(%d) of %d", idx, cnt))
	case "badset":
		idx := badIndex(cnt, op.P, false)
		v, _, err := e.mkScalar(op.V, n.Addr, e.MaxArrElem)
		if err != nil {
			return err
		}
		_, err = a.Set(idx, v)
		e.Stats.label("rejected")
		return e.expectIndexOOB(err, fmt.Sprintf("Set(%d) of %d", idx, cnt))
	case "badins":
		idx := badIndex(cnt, op.P, true)
		v, _, err := e.mkScalar(op.V, n.Addr, e.MaxArrElem)
		if err != nil {
			return err
		}
		err = a.Insert(idx, v)
		e.Stats.label("rejected")
		return e.expectIndexOOB(err, fmt.Sprintf("Insert(%d) of %d", idx, cnt))
	}
	return fmt.Errorf("verif: unknown array op %q", op.K)
}

// badIndex returns an index that is out of range for an array of cnt elements (first invalid index: cnt, for Insert
// cnt+1): just beyond the end, far beyond it, the extremes, and values whose low 16 / 32 bits are a VALID index
// (they alias an element if an implementation narrows the index before checking it).
func badIndex(cnt uint64, p uint64, ins bool) uint64 {
	lo := cnt
	if ins {
		lo = cnt + 1
	}
	in := uint64(0)
	if cnt > 0 {
		in = (p >> 8) % cnt
	}
	switch p % 12 {
	case 3:
		return lo + (p>>8)%1000
	case 4:
		return 1<<32 + in
	case 5:
		return (1+(p>>8)%7)<<32 + in
	case 6:
		return 1<<63 + in
	case 7:
		return math.MaxUint32
	case 8:
		return math.MaxUint64
	case 9:
		return math.MaxUint64 - (p>>8)%4
	case 10:
		return 1<<32 + lo
	case 11:
		return 1<<31 + lo
	}
	return lo + p%3
}

// mkScalar is mk restricted to values that create no container (used for requests that must be rejected).
func (e *Engine) mkScalar(vd *VD, addr atree.Address, limit uint32) (atree.Value, MV, error) {
	if vd != nil && (vd.K == "arr" || vd.K == "map" || vd.K == "cmap" || vd.K == "barr" || vd.K == "bmap") {
		vd = &VD{K: "u", N: vd.N}
	}
	if vd != nil && vd.K == "some" && vd.E != nil && (vd.E.K == "arr" || vd.E.K == "map" || vd.E.K == "cmap" || vd.E.K == "barr" || vd.E.K == "bmap") {
		vd = &VD{K: "some", W: vd.W, E: &VD{K: "u", N: vd.N}}
	}
	return e.mk(vd, addr, limit, 9)
}

func (e *Engine) depthOf(n *Node) int {
	d := 0
	for p := n.Parent; p != nil; p = p.Parent {
		d++
	}
	return d
}

// ---------------------------------------------------------------- map ops

// presentKey picks a present key deterministically from selector p; ok=false if the map is empty.
func presentKey(n *Node, p uint64) (string, bool) {
	ks := n.SortedKeys()
	if len(ks) == 0 {
		return "", false
	}
	return ks[int(p%uint64(len(ks)))], true
}

// absentKey finds a key of the universe that is absent from n.
func (e *Engine) absentKey(n *Node, p uint64) (MV, bool) {
	u := uint64(e.Cfg.Keys)
	for i := uint64(0); i < u+8; i++ {
		k := e.key((p+i)%u + u*uint64(i/u)) // beyond the universe if everything is present
		if _, ok := n.Ents[canonKey(k)]; !ok {
			return k, true
		}
	}
	return nil, false
}

func (e *Engine) mapOp(n *Node, op *Op) error {
	m := n.HM
	if m.Count() != uint64(len(n.Ents)) {
		return e.viol("map #%d count %d before the op, model has %d", n.ID, m.Count(), len(n.Ents))
	}
	cmp, hip := e.CB.Compare, e.CB.HashInput
	switch op.K {
	case "mset", "mrem", "mremN", "msetN", "mgrow", "mpop":
		n.Shape++
	}
	switch op.K {
	case "mset":
		var km MV
		if n.TI.Comp {
			km = Str{"f" + fmt.Sprint(op.P%6)}
		} else if op.A == 3 { // force an update of a present key
			if ck, ok := presentKey(n, op.P); ok {
				km = n.Ents[ck].K
			} else {
				km = e.key(op.P % uint64(e.Cfg.Keys))
			}
		} else {
			km = e.key(op.P % uint64(e.Cfg.Keys))
		}
		return e.mapSet(n, km, op.V, op.D == 1)

	case "msetN":
		for i := 0; i < op.N; i++ {
			km := e.key((op.P + uint64(i)) % uint64(e.Cfg.Keys))
			vd := e.elemVD(op.V, uint64(i), e.depthOf(n)+1)
			if err := e.mapSet(n, km, vd, false); err != nil {
				return err
			}
			if err := e.bulkTick(n, i, op.N); err != nil {
				return err
			}
			m = n.HM // the oracles may have replaced the handle (R1)
		}
		return nil

	case "mreset":
		var cands []string
		var cvals []MV
		for _, ck := range n.SortedKeys() {
			if c := nodeOf(n.Ents[ck].V); c != nil {
				cands = append(cands, ck)
				cvals = append(cvals, n.Ents[ck].V)
			}
		}
		if len(cands) == 0 {
			e.Stats.Skipped++
			return nil
		}
		ck := cands[preferWrapped(cvals, op.P)]
		c := nodeOf(n.Ents[ck].V)
		if err := e.acquire(c); err != nil {
			return err
		}
		m = n.HM // acquiring the child may have re-acquired its ancestors
		if op.P>>10&1 == 0 {
			if err := e.growUntilStandalone(c); err != nil {
				return err
			}
			if childInlined(c) {
				e.Stats.Skipped++
				return nil
			}
		} else if childInlined(c) {
			e.Stats.label("reassign_same_inlined_child")
		}
		var cv atree.Value = c.HA
		if c.IsMap {
			cv = c.HM
		}
		for i := 0; i < wrapLevels(n.Ents[ck].V); i++ {
			cv = Some{V: cv}
		}
		old, err := m.Set(cmp, hip, keyValue(n.Ents[ck].K), cv)
		if err != nil {
			return e.viol("Set(%s) with the container already stored there failed: %v", short(ck), err)
		}
		if !storableIsContainer(old, c.VID) {
			return e.viol("Set(%s) with the container already stored there handed back %v", short(ck), old)
		}
		e.Stats.label("reassign_same_child")
		if wrapLevels(n.Ents[ck].V) > 0 {
			e.Stats.label("reassign_same_wrapped_child")
		}
		if err := e.dbg("after reassign"); err != nil {
			return err
		}
		if op.D == 0 {
			return e.shrinkToFew(c)
		}
		return nil

	case "mgrow":
		if g := e.Cfg.HipGroups; g > 0 && g < 32 {
			e.Stats.Skipped++ // thousands of keys in a handful of collision groups would exceed the collision limit
			return nil
		}
		leaves := 8 + int(op.P%56)
		total := leaves * int(e.Cfg.Slab) / 24
		wide := op.P%5 == 0
		if wide {
			// wide: 130..249 leaves of a few large entries each
			leaves = 130 + int(op.P/5%120)
			total = leaves * 3
			e.Stats.label("grow_wide")
		}
		if total > 6000 {
			total = 6000
		}
		if n.Dig != nil && n.Dig.Levels >= 3 && n.Dig.Alpha[0] != 0 && n.Dig.Alpha[0] <= 5 && n.Dig.Alpha[1] != 0 && n.Dig.Alpha[1] <= 5 {
			// known finding F7 (DESIGN.md 10), excluded by construction: more than 8191 entries that share their first
			// two digests (a nested group inside an external collision group, which has no size limit) cannot be encoded
			if room := 8000 - len(n.Ents); total > room {
				if room < 0 {
					room = 0
				}
				e.Stats.Add("excluded_known_F7", total-room)
				total = room
			}
		}
		if g := e.Cfg.HipGroups; g > 0 {
			// keys of one hash-input group collide at the first level of the default digester; the collision limit
			// stays at 255, so a map never holds more than 120 keys per group on average (no refusal can occur:
			// refusals are C12's business, with generated digesters and a computed rule)
			if room := 120*g - len(n.Ents); total > room {
				total = room
				e.Stats.label("grow_capped_for_collision_limit")
			}
		}
		for i := 0; i < total; i++ {
			km := U64(1_000_000 + (op.P%1000)*100_000 + uint64(i))
			vd := &VD{K: "u", N: uint64(i)}
			if wide {
				vd = &VD{K: "s", Z: 2, D: i%7 - 3, N: uint64(i)} // half the element limit: about 3 entries per leaf
			}
			if n.Dig != nil && i%4 == 0 {
				// with colliding digests: big values, so that small collision groups are pushed out to external slabs
				vd = &VD{K: "s", Z: 2, D: i%7 - 3, N: uint64(i)}
			}
			if err := e.mapSet(n, km, vd, false); err != nil {
				return err
			}
			if err := e.bulkTick(n, i, total); err != nil {
				return err
			}
			m = n.HM // the oracles may have replaced the handle (R1)
		}
		e.Stats.label("grow")
		return nil

	case "mget", "mhas":
		ck, ok := presentKey(n, op.P)
		if !ok {
			e.Stats.Skipped++
			return nil
		}
		ent := n.Ents[ck]
		if op.K == "mhas" {
			has, err := m.Has(cmp, hip, keyValue(ent.K))
			if err != nil {
				return e.viol("Has(%s) of a present key failed: %v", short(ck), err)
			}
			if !has {
				return e.viol("Has(%s) = false for a present key", short(ck))
			}
			e.rec("has true")
			return nil
		}
		v, err := m.Get(cmp, hip, keyValue(ent.K))
		if err != nil {
			return e.viol("Get(%s) of a present key failed: %v", short(ck), err)
		}
		if err := cmpValue(v, ent.V, "Get("+short(ck)+")", e.co()); err != nil {
			return e.viol("%v", err)
		}
		if c := nodeOf(ent.V); c != nil {
			retire(c)
			if err := e.setHandle(c, v); err != nil {
				return err
			}
		}
		e.rec("mget %s", modelSummary(ent.V, 2))
		return nil

	case "mrem":
		ck, ok := presentKey(n, op.P)
		if !ok {
			e.Stats.Skipped++
			return nil
		}
		return e.mapRemove(n, ck, op.D == 1)

	case "mupdN":
		for i := 0; i < op.N; i++ {
			ck, ok := presentKey(n, op.P+uint64(i)*7919)
			if !ok {
				break
			}
			vd := op.V
			if vd == nil || op.D == 2 {
				vd = &VD{K: "u", N: uint64(i)}
			} else {
				vd = e.elemVD(op.V, uint64(i), 9)
			}
			if vd.K == "arr" || vd.K == "map" || vd.K == "cmap" || vd.K == "barr" || vd.K == "bmap" {
				vd = &VD{K: "u", N: vd.N}
			}
			if err := e.mapSet(n, n.Ents[ck].K, vd, false); err != nil {
				return err
			}
			if err := e.bulkTick(n, i, op.N); err != nil {
				return err
			}
			m = n.HM // the oracles may have replaced the handle (R1)
		}
		e.Stats.label("bulk_overwrite")
		return nil

	case "mremN":
		for i := 0; i < op.N; i++ {
			ck, ok := presentKey(n, op.P+uint64(i)*7919)
			if !ok {
				break
			}
			if err := e.mapRemove(n, ck, false); err != nil {
				return err
			}
			if err := e.bulkTick(n, i, op.N); err != nil {
				return err
			}
			m = n.HM // the oracles may have replaced the handle (R1)
		}
		e.Stats.label("bulk_remove")
		return nil

	case "mshrink":
		// as "shrink": 50-99 % of the entries removed one by one, in canonical (digest) order from the front or the
		// back, or scattered, with the structural oracles run during the burst
		if len(n.Ents) < 8 {
			e.Stats.Skipped++
			return nil
		}
		total := len(n.Ents) * (50 + int(op.P%50)) / 100
		mode := op.P >> 8 % 3
		var order []string
		if mode < 2 {
			order = e.expectedOrder(n, m.Seed())
			if mode == 1 {
				for i, j := 0, len(order)-1; i < j; i, j = i+1, j-1 {
					order[i], order[j] = order[j], order[i]
				}
			}
		}
		for i := 0; i < total; i++ {
			var ck string
			if order != nil {
				ck = order[i]
			} else {
				var ok bool
				if ck, ok = presentKey(n, mix64(op.P+uint64(i))); !ok {
					break
				}
			}
			if err := e.mapRemove(n, ck, false); err != nil {
				return err
			}
			if err := e.bulkTick(n, i, total); err != nil {
				return err
			}
			m = n.HM // the oracles may have replaced the handle (R1)
		}
		e.Stats.label("bulk_remove")
		e.Stats.label("shrink")
		return nil

	case "mpop":
		seen := map[string]bool{}
		var ferr error
		var order []string
		if e.Or.PopOrder {
			order = e.expectedOrder(n, m.Seed())
		}
		err := m.PopIterate(func(ks, vs atree.Storable) {
			if ferr != nil {
				return
			}
			kv, err := ks.StoredValue(e.St)
			if err != nil {
				ferr = e.viol("PopIterate: materialising a key failed: %v", err)
				return
			}
			ck, err := canonOfValue(kv)
			if err != nil {
				ferr = e.viol("PopIterate: %v", err)
				return
			}
			ent, ok := n.Ents[ck]
			if !ok || seen[ck] {
				ferr = e.viol("PopIterate yields key %s which is absent from the model or repeated", short(ck))
				return
			}
			if order != nil {
				if want := order[len(order)-1-len(seen)]; want != ck {
					ferr = e.viol("PopIterate yields key %s at reverse position %d, reverse canonical order expects %s", short(ck), len(seen), short(want))
					return
				}
			}
			seen[ck] = true
			if err := e.dispose(ks); err != nil {
				ferr = err
				return
			}
			ferr = e.handBack2(vs, ent.V, false, true, "PopIterate value of "+short(ck))
		})
		if err != nil {
			return e.viol("PopIterate failed: %v", err)
		}
		if ferr != nil {
			return ferr
		}
		if len(seen) != len(n.Ents) {
			return e.viol("PopIterate yields %d entries, model has %d", len(seen), len(n.Ents))
		}
		n.Ents = map[string]*Ent{}
		n.Ins = map[string]int{}
		e.Stats.label("pop")
		if n.Parent != nil {
			e.Stats.label("pop_nested")
		}
		return nil

	case "mbadget", "mbadrem", "mbadhas":
		km, ok := e.absentKey(n, op.P)
		if !ok {
			e.Stats.Skipped++
			return nil
		}
		e.Stats.label("rejected")
		switch op.K {
		case "mbadget":
			_, err := m.Get(cmp, hip, keyValue(km))
			return e.expectKeyNotFound(err, "Get of absent key "+short(canonKey(km)))
		case "mbadrem":
			_, _, err := m.Remove(cmp, hip, keyValue(km))
			return e.expectKeyNotFound(err, "Remove of absent key "+short(canonKey(km)))
		default:
			has, err := m.Has(cmp, hip, keyValue(km))
			if err != nil {
				return e.viol("Has of an absent key failed: %v", err)
			}
			if has {
				return e.viol("Has(%s) = true for an absent key", short(canonKey(km)))
			}
			return nil
		}
	}
	return fmt.Errorf("verif: unknown map op %q", op.K)
}

// expectedRefusal is set by the collision-limit oracle (C12); nil for default-digester maps.
func (e *Engine) mapSet(n *Node, km MV, vd *VD, keep bool) error {
	m := n.HM
	ck := canonKey(km)
	ent, present := n.Ents[ck]
	kv := keyValue(km)
	ksz := storedSize(km, e.MaxMapKey)
	refuse := false
	if !present && n.Dig != nil {
		refuse = e.expectRefusal(n, km)
	}
	var v atree.Value
	var mv MV
	var err error
	if refuse {
		v, mv, err = e.mkScalar(vd, n.Addr, e.mapValueLimit(ksz))
	} else {
		v, mv, err = e.mk(vd, n.Addr, e.mapValueLimit(ksz), e.depthOf(n)+1)
	}
	if err != nil {
		return err
	}
	var deltasBefore uint
	if refuse {
		deltasBefore = e.St.Deltas()
	}
	old, err := m.Set(e.CB.Compare, e.CB.HashInput, kv, v)
	if refuse {
		var cle *atree.CollisionLimitError
		if err == nil {
			return e.viol("Set of new key %s succeeded although the collision limit %d is exceeded", short(ck), e.Cfg.CollLimit)
		}
		if !errors.As(err, &cle) || !isFatal(err) || isUser(err) {
			return e.viol("Set of new key %s beyond the collision limit: expected a fatal CollisionLimitError, got %T: %v", short(ck), err, err)
		}
		if d := e.St.Deltas(); d != deltasBefore {
			return e.viol("refused Set changed the number of pending slabs from %d to %d", deltasBefore, d)
		}
		e.Stats.label("collision_refusal")
		e.Stats.label("rejected")
		return nil
	}
	if err != nil {
		return e.viol("Set(%s) failed: %v", short(ck), err)
	}
	if present {
		prev := ent.V
		ent.V = mv
		e.adopt(n, mv)
		e.Stats.label("map_update")
		if old == nil {
			return e.viol("Set(%s) of a present key returned no previous value", short(ck))
		}
		return e.handBack(old, prev, keep, "Set("+short(ck)+") previous value")
	}
	if old != nil {
		return e.viol("Set(%s) of a new key returned a previous value %v", short(ck), old)
	}
	n.Ents[ck] = &Ent{K: km, V: mv}
	n.stamp++
	n.Ins[ck] = n.stamp
	e.adopt(n, mv)
	e.rec("mset new")
	return nil
}

func (e *Engine) mapRemove(n *Node, ck string, keep bool) error {
	ent := n.Ents[ck]
	ks, vs, err := n.HM.Remove(e.CB.Compare, e.CB.HashInput, keyValue(ent.K))
	if err != nil {
		return e.viol("Remove(%s) of a present key failed: %v", short(ck), err)
	}
	delete(n.Ents, ck)
	delete(n.Ins, ck)
	e.Stats.label("remove")
	// removed key must equal the key
	kv, err := ks.StoredValue(e.St)
	if err != nil {
		return e.viol("Remove(%s): materialising the removed key failed: %v", short(ck), err)
	}
	if got, err := canonOfValue(kv); err != nil || got != ck {
		return e.viol("Remove(%s) handed back key %v", short(ck), kv)
	}
	if err := e.dispose(ks); err != nil {
		return err
	}
	return e.handBack(vs, ent.V, keep, "Remove("+short(ck)+") value")
}

// ---------------------------------------------------------------- detached roots

func (e *Engine) detachedRoots() []*Node {
	var out []*Node
	for _, r := range e.Roots {
		if r.Detached {
			out = append(out, r)
		}
	}
	return out
}

func (e *Engine) removeRoot(n *Node) {
	for i, r := range e.Roots {
		if r == n {
			e.Roots = append(e.Roots[:i:i], e.Roots[i+1:]...)
			return
		}
	}
}

// reattach inserts a detached container into another container (through its live handle if it has one).
func (e *Engine) reattach(op *Op) error {
	ds := e.detachedRoots()
	if len(ds) == 0 {
		e.Stats.Skipped++
		return nil
	}
	d := ds[int(op.P%uint64(len(ds)))]
	// destination: any container that is not d or inside d, owned by the same address
	var cands []*Node
	for _, n := range e.allNodes() {
		in := false
		for p := n; p != nil; p = p.Parent {
			if p == d {
				in = true
			}
		}
		if !in && n.Addr == d.Addr && !n.TI.Comp {
			cands = append(cands, n)
		}
	}
	if len(cands) == 0 {
		e.Stats.Skipped++
		return nil
	}
	dst := cands[int(op.T%uint(len(cands)))]
	if e.depthOf(dst) >= 3 {
		e.Stats.Skipped++
		return nil
	}
	if err := e.acquire(d); err != nil {
		return err
	}
	if err := e.handle(dst, 0); err != nil {
		return err
	}
	var v atree.Value
	if d.IsMap {
		v = d.HM
	} else {
		v = d.HA
	}
	if dst.IsMap {
		km, ok := e.absentKey(dst, op.P)
		if !ok {
			e.Stats.Skipped++
			return nil
		}
		if dst.Dig != nil && e.expectRefusal(dst, km) {
			e.Stats.Skipped++
			return nil
		}
		old, err := dst.HM.Set(e.CB.Compare, e.CB.HashInput, keyValue(km), v)
		if err != nil {
			return e.viol("re-attaching detached container into map failed: %v", err)
		}
		if old != nil {
			return e.viol("Set of a new key returned a previous value")
		}
		ck := canonKey(km)
		dst.Ents[ck] = &Ent{K: km, V: d}
		dst.stamp++
		dst.Ins[ck] = dst.stamp
	} else {
		if err := dst.HA.Append(v); err != nil {
			return e.viol("re-attaching detached container into array failed: %v", err)
		}
		dst.Elems = append(dst.Elems, d)
	}
	e.removeRoot(d)
	d.Detached = false
	d.Root = atree.SlabIDUndefined
	d.Parent = dst
	d.ParentShape = dst.Shape
	d.HandleParentGen = dst.Gen
	d.Former = nil
	e.Stats.label("reattached")
	return nil
}

// dropDetached disposes of a detached container (deep removal).
func (e *Engine) dropDetached(op *Op) error {
	ds := e.detachedRoots()
	if len(ds) == 0 {
		e.Stats.Skipped++
		return nil
	}
	d := ds[int(op.P%uint64(len(ds)))]
	retire(d)
	e.removeRoot(d)
	e.Stats.label("detached_disposed")
	if op.D == 1 && d.Count() <= 2 {
		// a value the client knows to be a single slab of plain scalars can be removed by identifier
		// without loading it first (not a map under the colliding hash-input provider: even two small
		// colliding entries can live in an external collision group, i.e. in a second slab)
		blind := !(d.IsMap && e.Cfg.HipGroups > 0)
		vals := d.Elems
		if d.IsMap {
			vals = nil
			for _, ck := range d.SortedKeys() {
				vals = append(vals, d.Ents[ck].K, d.Ents[ck].V)
			}
		}
		for _, v := range vals {
			if !e.plainScalar(v, 24) {
				blind = false
			}
		}
		if blind {
			e.Stats.label("removed_without_loading")
			if err := e.St.Remove(d.Root); err != nil {
				return e.viol("removing slab %s failed: %v", d.Root, err)
			}
			return nil
		}
	}
	return e.dispose(atree.SlabIDStorable(d.Root))
}

func rootOf(n *Node) *Node {
	for n.Parent != nil {
		n = n.Parent
	}
	return n
}

// encodeTrees encodes every slab of every root tree except skip's.
func (e *Engine) encodeTrees(skip *Node) (map[atree.SlabID][]byte, error) {
	w := newWalk(e.St)
	for _, r := range e.Roots {
		if r == skip {
			continue
		}
		if _, err := w.visit(r.Root, nil, false); err != nil {
			return nil, e.viol("%v", err)
		}
	}
	if err := w.encodeAll(); err != nil {
		return nil, e.viol("%v", err)
	}
	out := make(map[atree.SlabID][]byte, len(w.Order))
	for _, si := range w.Order {
		out[si.ID] = si.Enc
	}
	return out, nil
}

// withIsolation (C11): an operation on a detached container must not change any slab of any other tree.
func (e *Engine) withIsolation(n *Node, f func() error) error {
	r := rootOf(n)
	if !e.Or.Isolation || !r.Detached {
		return f()
	}
	before, err := e.encodeTrees(r)
	if err != nil {
		return err
	}
	if err := f(); err != nil {
		return err
	}
	// values handed back and kept as new detached roots are new trees: only compare what existed before
	after, err := e.encodeTrees(r)
	if err != nil {
		return err
	}
	for id, b := range before {
		a, ok := after[id]
		if !ok {
			return e.viol("operation on detached container #%d removed slab %s of another tree", n.ID, id)
		}
		if string(a) != string(b) {
			return e.viol("operation on detached container #%d changed slab %s of another tree:\n  before %x\n  after  %x", n.ID, id, b, a)
		}
	}
	e.Stats.label("isolation_checked")
	return nil
}

// rejectedOp: requests that must be refused because of their arguments (C18).
func (e *Engine) rejectedOp(op *Op) error {
	e.Stats.label("rejected")
	switch op.K {
	case "badrange":
		n := e.pick(op.T, false, true)
		if n == nil {
			e.Stats.Skipped++
			return nil
		}
		if err := e.handle(n, 0); err != nil {
			return err
		}
		cnt := uint64(len(n.Elems))
		var s, t uint64
		wantOOB := true
		switch op.P % 8 {
		case 0:
			s, t = 0, cnt+1+op.P%5
		case 1:
			s, t = cnt+1, cnt+1
		case 2:
			s, t = cnt+2, cnt
		case 4:
			s, t = 0, 1<<32+cnt/2 // aliases a valid end if narrowed to 32 bits
		case 5:
			s, t = 1<<32, 1<<32+cnt
		case 6:
			s, t = 1<<32+cnt/2, cnt
		case 7:
			s, t = 0, math.MaxUint64
		default:
			if cnt < 2 {
				s, t = cnt+1, cnt+3
			} else {
				s, t = cnt, cnt-1-(op.P/4)%(cnt-1)
				wantOOB = false
			}
		}
		nop := func(atree.Value) (bool, error) { return true, nil }
		_, e3 := n.HA.RangeIterator(s, t)
		_, e4 := n.HA.ReadOnlyRangeIterator(s, t)
		for _, err := range []error{n.HA.IterateRange(s, t, nop), n.HA.IterateReadOnlyRange(s, t, nop), e3, e4} {
			if wantOOB {
				var oob *atree.SliceOutOfBoundsError
				if err == nil || !errors.As(err, &oob) || !isUser(err) || isFatal(err) {
					return e.viol("range [%d,%d) of %d: expected a user SliceOutOfBoundsError, got %v", s, t, cnt, err)
				}
			} else {
				var inv *atree.InvalidSliceIndexError
				if err == nil || !errors.As(err, &inv) || !isUser(err) || isFatal(err) {
					return e.viol("range [%d,%d) of %d: expected a user InvalidSliceIndexError, got %v", s, t, cnt, err)
				}
			}
		}
		return nil
	case "badid":
		var sid *atree.SlabIDError
		check := func(what string, err error) error {
			if err == nil || !errors.As(err, &sid) || !isFatal(err) || isUser(err) {
				return e.viol("%s with the undefined identifier: expected a fatal SlabIDError, got %v", what, err)
			}
			return nil
		}
		_, err := atree.NewArrayWithRootID(e.St, atree.SlabIDUndefined)
		if err := check("NewArrayWithRootID", err); err != nil {
			return err
		}
		_, err = atree.NewMapWithRootID(e.St, atree.SlabIDUndefined, atree.NewDefaultDigesterBuilder())
		if err := check("NewMapWithRootID", err); err != nil {
			return err
		}
		if err := check("Store", e.St.Store(atree.SlabIDUndefined, nil)); err != nil {
			return err
		}
		return check("Remove", e.St.Remove(atree.SlabIDUndefined))
	case "badreopen":
		// opening a slab that is not the root of a value
		w := newWalk(e.St)
		for _, r := range e.Roots {
			if _, err := w.visit(r.Root, nil, false); err != nil {
				return e.viol("%v", err)
			}
		}
		var cands []*SI
		for _, si := range w.Order {
			if si.ViaIndex {
				cands = append(cands, si)
			}
		}
		if len(cands) == 0 {
			e.Stats.Skipped++
			return nil
		}
		si := cands[int(op.P%uint64(len(cands)))]
		var err error
		if si.Kind == kArrData || si.Kind == kArrMeta {
			_, err = atree.NewArrayWithRootID(e.St, si.ID)
		} else {
			_, err = atree.NewMapWithRootID(e.St, si.ID, atree.NewDefaultDigesterBuilder())
		}
		var nv *atree.NotValueError
		if err == nil || !errors.As(err, &nv) || !isFatal(err) || isUser(err) {
			return e.viol("opening non-root slab %s as a value: expected a fatal NotValueError, got %v", si.ID, err)
		}
		e.Stats.label("rejected_reopen_of_non_root")
		return nil
	case "mbadset":
		// an insert that the collision limit must refuse
		for _, n := range e.allNodes() {
			if !n.IsMap || n.Dig == nil || n.Parent != nil {
				continue
			}
			if err := e.handle(n, 0); err != nil {
				return err
			}
			u := uint64(e.Cfg.Keys)
			for i := uint64(0); i < u; i++ {
				km := e.key((op.P + i) % u)
				if _, present := n.Ents[canonKey(km)]; present || !e.expectRefusal(n, km) {
					continue
				}
				return e.mapSet(n, km, op.V, false) // mapSet checks the refusal
			}
		}
		e.Stats.Skipped++
		return nil
	}
	return nil
}

// bulkTick runs the whole-state structural oracles inside a bulk operation (after its i-th primitive step of total):
// after every step on small states, less often on large ones so that a burst costs about 60 000 element visits.
func (e *Engine) bulkTick(n *Node, i, total int) error {
	if e.quiet {
		return nil
	}
	// the oracles read through designated handles and may retire / replace handles on the way (R1); the operation
	// that is running continues through the designated handle of its target afterwards
	defer func() {
		if !n.HasHandle() {
			_ = e.acquire(n)
		}
	}()
	every := 1 + total*e.modelSize()/60_000
	if m := (total + 47) / 48; every < m {
		every = m // at most 48 whole-state checks per bulk operation
	}
	if (i+1)%every != 0 {
		return nil
	}
	e.Stats.Add("mid_bulk_checks", 1)
	if e.Or.Verify {
		if err := e.VerifyAll(); err != nil {
			return err
		}
	}
	if e.Or.Tree || e.Or.Sizes || e.Or.Health || e.Or.Inline || e.Or.RoundTrip {
		if err := e.checkStructure(); err != nil {
			return err
		}
	}
	return nil
}

// f7probe: n keys that share their first two digests (third level distinct) in a scratch storage, commit, reload.
func (e *Engine) f7probe(n int) error {
	l := NewLedger()
	st := NewStorage(l)
	spec := &DigSpec{Levels: 3, Alpha: [4]uint64{1, 1, 0, 0}}
	cb := &Callbacks{}
	m, err := atree.NewMap(st, addrOf(1), newGenDigesterBuilder(spec), TI{N: 2})
	if err != nil {
		return e.viol("NewMap failed: %v", err)
	}
	for i := 0; i < n; i++ {
		if _, err := m.Set(cb.Compare, cb.HashInput, U64(uint64(i)), U64(uint64(i))); err != nil {
			return e.viol("Set %d of %d failed: %v", i, n, err)
		}
	}
	if err := st.FastCommit(2); err != nil {
		return e.viol("commit failed: %v", err)
	}
	st2 := NewStorage(l)
	m2, err := atree.NewMapWithRootID(st2, m.SlabID(), newGenDigesterBuilder(spec))
	if err == nil {
		_, err = m2.Get(cb.Compare, cb.HashInput, U64(uint64(n-1)))
	}
	if err != nil {
		return e.viol("F7: a map whose %d keys share their first two digests (one external collision group with a nested group of %d entries) was committed without error but cannot be read back from its registers: %v", n, n, err)
	}
	return nil
}

// storableIsContainer reports whether s (possibly wrapped) denotes the container with value id vid: a reference
// to its root slab, or its inlined root slab itself.
func storableIsContainer(s atree.Storable, vid atree.ValueID) bool {
	switch x := unwrapStorable(s).(type) {
	case atree.SlabIDStorable:
		return slabIDToValueID(atree.SlabID(x)) == vid
	case atree.ArraySlab:
		return slabIDToValueID(x.SlabID()) == vid
	case atree.MapSlab:
		return slabIDToValueID(x.SlabID()) == vid
	}
	return false
}

// childInlined reports whether nested container c is currently inlined (through its designated handle).
func childInlined(c *Node) bool {
	if c.IsMap {
		return c.HM.Inlined()
	}
	return c.HA.Inlined()
}

// growUntilStandalone appends to nested container c until it no longer fits inline (bounded).
func (e *Engine) dbg(what string) error {
	if !e.DebugVerify {
		return nil
	}
	if err := e.VerifyAll(); err != nil {
		return fmt.Errorf("[debug: %s] %w", what, err)
	}
	return nil
}

func (e *Engine) growUntilStandalone(c *Node) error {
	if err := e.dbg("before grow"); err != nil {
		return err
	}
	for i := 0; i < 40 && childInlined(c); i++ {
		if err := e.dbg(fmt.Sprintf("grow round %d", i)); err != nil {
			return err
		}
		var err error
		if c.IsMap {
			if c.TI.Comp {
				return nil
			}
			err = e.mapOp(c, &Op{K: "msetN", P: uint64(7000 + i*16), N: 8, V: &VD{K: "s", Z: 1, N: uint64(i)}})
		} else {
			err = e.arrayOp(c, &Op{K: "appN", N: 8, V: &VD{K: "s", Z: 1, N: uint64(i)}})
		}
		if err != nil {
			return err
		}
	}
	return nil
}

// shrinkToFew removes elements of nested container c through its handle until at most two remain.
func (e *Engine) shrinkToFew(c *Node) error {
	if c.Count() <= 2 {
		return nil
	}
	if c.IsMap {
		return e.mapOp(c, &Op{K: "mremN", P: 3, N: c.Count() - 2})
	}
	return e.arrayOp(c, &Op{K: "remN", P: 1, N: c.Count() - 2, D: 2})
}

// pickChild prefers wrapped nested containers (cands are indexes / keys in deterministic order).
func preferWrapped(vals []MV, p uint64) int {
	var wrapped []int
	for i, v := range vals {
		if wrapLevels(v) > 0 {
			wrapped = append(wrapped, i)
		}
	}
	if len(wrapped) > 0 && p%4 != 0 {
		return wrapped[int(p/4)%len(wrapped)]
	}
	return int(p % uint64(len(vals)))
}
