package harness

import (
	"fmt"

	"github.com/onflow/atree"
)

func init() {
	// ------------------------------------------------------------------ C03: durable commits, no uncommitted leakage
	registerEngine(engPropSpec{
		ID: "C03",
		G: func() *GenCfg {
			return scale(&GenCfg{
				Slabs: quickSlabs, MinOps: 2, MaxOps: 50,
				W: map[string]int{
					"app": 8, "ins": 6, "set": 7, "rem": 8, "pop": 1, "appN": 6, "remN": 4,
					"mset": 12, "mrem": 8, "mpop": 1, "msetN": 5, "mremN": 3, "styp": 2, "reget": 1,
					"commit": 9, "reopen": 3, "evict": 2, "crashchk": 6, "grow": 1, "mgrow": 1, "setN": 2, "mupdN": 2, "drop": 3, "shrink": 1, "mshrink": 1,
				},
				Roots: [][]RootSpec{
					{{K: "arr", Addr: 1, TI: 1}},
					{{K: "map", Addr: 1, TI: 2}},
					{{K: "arr", Addr: 1, TI: 1}, {K: "map", Addr: 2, TI: 2}},
					{{K: "arr", Addr: 1, TI: 1}, {K: "map", Addr: 1, TI: 2}, {K: "arr", Addr: 0, TI: 3}},
					{{K: "map", Addr: 2, TI: 2}, {K: "map", Addr: 0, TI: 3}},
				},
				MaxBulk: 80, Keys: []int{12, 64, 300},
				ValW: valAll, MaxDepth: 2, MaxElems: 5, AcqW: [3]int{8, 1, 1}, NondetPct: 30,
				Keep: 12, // some handed-back containers are kept and disposed of later, also by identifier without loading
			})
		},
		Or: func(*Case) Oracles {
			ce := 3
			if thorough() {
				ce = 1
			}
			return Oracles{CmpEvery: 8, FreshAtCommit: true, NoWriteBetweenCommits: true, CrashEvery: ce, QuietAfterEvict: true, BlindDispose: true}
		},
		Post: func(e *Engine, cs *Case) error {
			if err := e.CrashCheck(); err != nil {
				return err
			}
			if err := endCommitFresh(e, cs); err != nil {
				return err
			}
			// the same history with a commit after every single operation (same storage, no reload):
			// whatever one operation changed must be in the registers right after the next commit
			e2, err := NewEngine(cs.Cfg, Oracles{FreshAtCommit: true, NoWriteBetweenCommits: true})
			if err != nil {
				return err
			}
			if err := e2.Run(reschedule(cs.Ops, 6)); err != nil {
				return fmt.Errorf("with a commit after every operation: %w", err)
			}
			e.Stats.Add("commits_after_every_op", e2.Stats.Commits)
			return nil
		},
		Non: func(s *CaseStats) bool {
			return s.Commits >= 2 && s.Has("multi_slab") && s.Has("crash_point_with_pending_changes") && s.Has("commit>=3_dirty")
		},
		Rule: ">=2 commits, a multi-slab container mutated, a commit with >=3 dirty slabs, and >=1 crash point with pending changes strictly between commits",
	})

	// ------------------------------------------------------------------ C11: detached containers and stale handles
	registerEngine(engPropSpec{
		ID: "C11",
		G: func() *GenCfg {
			return scale(&GenCfg{
				Slabs: quickSlabs, MinOps: 2, MaxOps: 50,
				W: map[string]int{
					"app": 10, "ins": 6, "set": 9, "rem": 10, "get": 2, "pop": 1, "appN": 4, "remN": 2,
					"mset": 10, "mget": 2, "mrem": 8, "mpop": 1, "msetN": 3, "mremN": 2, "styp": 2,
					"reget": 2, "reopen": 1, "commit": 2, "evict": 1, "reattach": 5, "drop": 2, "reset": 2, "mreset": 2,
				},
				Roots: [][]RootSpec{
					{{K: "arr", Addr: 1, TI: 1}},
					{{K: "map", Addr: 1, TI: 2}},
					{{K: "arr", Addr: 1, TI: 1}, {K: "map", Addr: 1, TI: 2}},
				},
				MaxBulk: 40, Keys: []int{12, 64},
				ValW: valNested, MaxDepth: 3, MaxElems: 6, AcqW: [3]int{7, 2, 1}, Keep: 60,
			})
		},
		Or: func(*Case) Oracles {
			return Oracles{CmpEvery: 1, CheckHandles: true, Verify: true, Health: true, Inline: true, Sizes: true, FreshAtCommit: true, Isolation: true}
		},
		Post: func(e *Engine, cs *Case) error {
			if err := endCommitFresh(e, cs); err != nil {
				return err
			}
			return e.staleHandleAfterReattach()
		},
		Non: func(s *CaseStats) bool {
			return s.Has("stale_handle_on_detached") && s.Has("isolation_checked") && s.Has("detached_with_live_handle")
		},
		Rule: "a container is detached while a handle to it is alive, and that stale handle is later used for a mutation (isolation of all other trees checked byte-wise)",
	})

	// ------------------------------------------------------------------ C12: hash collisions and the limit
	registerEngine(engPropSpec{
		ID: "C12",
		G: func() *GenCfg {
			g := scale(&GenCfg{
				Slabs: quickSlabs, MinOps: 2, MaxOps: 60,
				W: map[string]int{
					"mset": 30, "mget": 5, "mhas": 3, "mrem": 16, "mpop": 1, "msetN": 8, "mremN": 8, "mgrow": 3, "mupdN": 3, "mshrink": 3,
					"mbadget": 2, "mbadrem": 2, "mbadhas": 1, "reopen": 2, "commit": 1, "evict": 1, "styp": 1,
				},
				Roots:   nil, // drawn per case (digester)
				MaxBulk: 60, Keys: []int{10, 40, 200},
				ValW:     map[string]int{"u": 10, "s0": 3, "s1": 4, "s2": 4, "s3": 2, "s4": 2, "s5": 2, "s6": 1, "s7": 3, "some": 2, "arr": 2, "map": 2},
				MaxDepth: 1, MaxElems: 4, AcqW: [3]int{9, 1, 0},
				CollLimits: []uint32{0, 1, 2, 3, 5, 255, 255},
			})
			g.DigRoots = true
			g.HipGroupsPct = 20 // nested maps (default digester) collide too
			return g
		},
		Or: func(*Case) Oracles {
			return Oracles{CmpEvery: 1, Verify: true, Tree: true, Sizes: true, Iter: true, Health: true, FreshAtCommit: true}
		},
		Post: func(e *Engine, cs *Case) error {
			if err := endCommitFresh(e, cs); err != nil {
				return err
			}
			return e.emptyEverything()
		},
		Non: func(s *CaseStats) bool {
			return s.Has("collision_refusal") || (s.Has("external_collision_group") && s.Has("remove")) || s.Has("inline_collision_group")
		},
		Rule: "case contains a collision-limit refusal, an external collision group with later removals, or an inline collision group",
	})
}

// staleHandleAfterReattach (terminal scenario of C11): a detached container whose old handle is still
// alive is attached elsewhere through ANOTHER handle (so that it is inlined there), then mutated through
// the old handle.  Using two handles on one container breaks the handle discipline for the new parent
// (which is therefore not inspected any more), but the FORMER parent must stay byte-identical.
func (e *Engine) staleHandleAfterReattach() error {
	for _, d := range e.detachedRoots() {
		if !d.HasHandle() || d.Former == nil || d.Count() > 3 {
			continue
		}
		former := rootOf(d.Former)
		stillLive := false
		for _, r := range e.Roots {
			if r == former {
				stillLive = true
			}
		}
		if !stillLive || former == d {
			continue
		}
		// a second handle, obtained by reloading the detached value by its identifier
		var v2 atree.Value
		var err error
		if d.IsMap {
			v2, err = atree.NewMapWithRootID(e.St, d.Root, atree.NewDefaultDigesterBuilder())
		} else {
			v2, err = atree.NewArrayWithRootID(e.St, d.Root)
		}
		if err != nil {
			return e.viol("reloading detached container %s failed: %v", d.Root, err)
		}
		q, err := atree.NewArray(e.St, d.Addr, TI{N: 9})
		if err != nil {
			return e.viol("NewArray failed: %v", err)
		}
		if err := q.Append(v2); err != nil {
			return e.viol("attaching a reloaded detached container to a new array failed: %v", err)
		}
		before, err := e.encodeTrees(d)
		if err != nil {
			return err
		}
		// mutate through the OLD handle (errors are not judged: only the former parent is)
		if d.IsMap {
			if !d.TI.Comp {
				_, _ = d.HM.Set(e.CB.Compare, e.CB.HashInput, U64(424242), U64(1))
			}
		} else {
			_ = d.HA.Append(U64(1))
		}
		e.removeRoot(d) // d and q are outside the handle discipline from here on
		w := newWalk(e.St)
		if _, err := w.visit(former.Root, nil, false); err != nil {
			return e.viol("former parent after a stale-handle mutation of its re-attached former child: %v", err)
		}
		if err := w.encodeAll(); err != nil {
			return e.viol("%v", err)
		}
		for _, si := range w.Order {
			if b, ok := before[si.ID]; !ok || string(b) != string(si.Enc) {
				return e.viol("mutating a detached container (re-attached elsewhere through another handle) through its old handle changed slab %s of its former parent", si.ID)
			}
		}
		if err := cmpValueOfRoot(e, former); err != nil {
			return err
		}
		e.Stats.label("stale_handle_after_reattach_elsewhere")
		return nil // one such scenario per case: the storage is outside the discipline now
	}
	return nil
}

func cmpValueOfRoot(e *Engine, r *Node) error {
	v, err := e.rootValue(r)
	if err != nil {
		return err
	}
	if err := cmpValue(v, r, fmt.Sprintf("former parent root#%d", r.ID), e.co()); err != nil {
		return e.viol("%v", err)
	}
	return nil
}
