package harness

// c15.go: PersistentSlabStorage as a write-back overlay — a direct state machine
// over a tiny universe of identifiers and slab versions, compared with a
// three-map model (ledger, read cache, write set) after every step.

import (
	"errors"
	"fmt"
	"sort"
	"strings"

	"github.com/onflow/atree"
	"pgregory.net/rapid"
)

type SOp struct {
	K string `json:"k"`           // store remove get getloaded getnodelta commit ncommit dropdeltas dropcache preload recreate
	I int    `json:"i,omitempty"` // identifier index in the universe
	V int    `json:"v,omitempty"` // version 1..3
	N int    `json:"n,omitempty"` // workers / preload size selector
	F int    `json:"f,omitempty"` // commit: bit i set = fail the (i+1)-th ledger write of this commit (0 = none)
	C bool   `json:"c,omitempty"` // getnodelta: cache flag
}

type SCase struct {
	Prop string `json:"prop"`
	Ops  []SOp  `json:"ops"`
	// wide scenario (c15_wide.go): Wide > 0 = number of slabs pending in ONE commit
	Wide int  `json:"wide,omitempty"`
	WF   int  `json:"wf,omitempty"` // 1-based ledger write of the first commit that fails (0 = none)
	WK   bool `json:"wk,omitempty"` // first commit is NondeterministicFastCommit
	WN   int  `json:"wn,omitempty"` // workers selector
}

var c15Universe = func() []atree.SlabID {
	mk := func(a, i uint64) atree.SlabID {
		var idx atree.SlabIndex
		idx[7] = byte(i)
		idx[6] = byte(i >> 8)
		return atree.NewSlabID(addrOf(a), idx)
	}
	ids := []atree.SlabID{mk(1, 1), mk(1, 2), mk(2, 1), mk(0, 1), mk(1, 3), mk(2, 2)}
	for i := uint64(4); i < 16; i++ { // padding ids: only used to push BatchPreload over its parallel threshold
		ids = append(ids, mk(1, i))
	}
	return ids
}()

const c15Core = 6 // identifiers that ops act on (two owners, one temporary-address id)

func c15Register(v int) []byte { return []byte{0x10, 0x3f, 0xd8, tagU64, byte(v)} }

func c15Slab(id atree.SlabID, v int) atree.Slab {
	s, err := atree.DecodeSlab(id, c15Register(v), DecMode, DecodeStorable, DecodeTypeInfo)
	if err != nil {
		panic(err)
	}
	return s
}

func c15Version(s atree.Slab) int {
	if s == nil {
		return 0
	}
	cs := s.ChildStorables()
	if len(cs) != 1 {
		return -1
	}
	u, ok := cs[0].(U64)
	if !ok {
		return -1
	}
	return int(u)
}

// ovModel: 0 = absent/deleted; -1 = no entry.
type ovModel struct {
	base   map[int]int // committed version per id (absent if none)
	cache  map[int]int // entry: version or 0 (known deleted)
	deltas map[int]int // entry: version or 0 (removed)
}

func newOvModel() *ovModel {
	return &ovModel{base: map[int]int{}, cache: map[int]int{}, deltas: map[int]int{}}
}

func (m *ovModel) view(i int) int {
	if v, ok := m.deltas[i]; ok {
		return v
	}
	return m.base[i]
}

func (m *ovModel) key() string {
	f := func(x map[int]int) string {
		ks := make([]int, 0, len(x))
		for k := range x {
			ks = append(ks, k)
		}
		sort.Ints(ks)
		var sb strings.Builder
		for _, k := range ks {
			if k < c15Core {
				fmt.Fprintf(&sb, "%d=%d,", k, x[k])
			}
		}
		return sb.String()
	}
	return f(m.base) + "|" + f(m.cache) + "|" + f(m.deltas)
}

type c15Visit struct {
	states map[string]bool
	pairs  map[string]bool
}

func runC15(cs *SCase, vis *c15Visit) (*CaseStats, error) {
	st := newCaseStats()
	l := NewLedger()
	if len(cs.Ops)%3 == 0 {
		l.ViaLedgerAPI = true // every third sequence length: registers reached through atree.LedgerBaseStorage
		st.label("via_ledger_api")
	}
	// padding ids are committed from the start (never modified)
	for i := c15Core; i < len(c15Universe); i++ {
		l.Regs[c15Universe[i]] = c15Register(3)
	}
	s := NewStorage(l)
	m := newOvModel()
	for i := c15Core; i < len(c15Universe); i++ {
		m.base[i] = 3
	}
	isTemp := func(i int) bool { return c15Universe[i].HasTempAddress() }

	check := func(step int, op *SOp) error {
		fail := func(f string, a ...any) error {
			return fmt.Errorf("step %d (%s): %s", step, op.K, fmt.Sprintf(f, a...))
		}
		// ledger == model base
		if len(l.Regs) != len(m.base) {
			return fail("ledger holds %d registers, model %d", len(l.Regs), len(m.base))
		}
		for i, v := range m.base {
			b, ok := l.Regs[c15Universe[i]]
			if !ok || len(b) != 5 || int(b[4]) != v {
				return fail("ledger register of id#%d is %x, model has version %d", i, b, v)
			}
		}
		nd, ndo := 0, 0
		size := uint64(0)
		unsaved := map[atree.Address]bool{}
		for i, v := range m.deltas {
			nd++
			unsaved[c15Universe[i].Address()] = true
			if !isTemp(i) {
				ndo++
				if v != 0 {
					size += uint64(c15Slab(c15Universe[i], v).ByteSize())
				}
			}
		}
		if got := s.Deltas(); got != uint(nd) {
			return fail("Deltas() = %d, model has %d pending entries", got, nd)
		}
		if got := s.DeltasWithoutTempAddresses(); got != uint(ndo) {
			return fail("DeltasWithoutTempAddresses() = %d, model %d", got, ndo)
		}
		if got := s.DeltasSizeWithoutTempAddresses(); got != size {
			return fail("DeltasSizeWithoutTempAddresses() = %d, model %d", got, size)
		}
		for _, a := range []uint64{0, 1, 2, 3} {
			if got := s.HasUnsavedChanges(addrOf(a)); got != unsaved[addrOf(a)] {
				return fail("HasUnsavedChanges(%d) = %v, model %v", a, got, unsaved[addrOf(a)])
			}
		}
		// (LedgerBaseStorage does not implement segment counting: Count() is only compared on a direct base storage)
		if got := s.Count(); got != len(m.base) && !l.ViaLedgerAPI {
			return fail("Count() = %d, ledger has %d", got, len(m.base))
		}
		for i := 0; i < c15Core; i++ {
			want := 0
			if v, ok := m.deltas[i]; ok {
				want = v
			} else if v, ok := m.cache[i]; ok {
				want = v
			}
			if got := c15Version(s.RetrieveIfLoaded(c15Universe[i])); got != want {
				return fail("RetrieveIfLoaded(id#%d) has version %d, model %d", i, got, want)
			}
		}
		if vis != nil {
			vis.states[m.key()] = true
		}
		return nil
	}

	for step := range cs.Ops {
		op := &cs.Ops[step]
		i := op.I % c15Core
		id := c15Universe[i]
		if vis != nil {
			vis.pairs[m.key()+"#"+fmt.Sprintf("%s/%d/%d/%d/%d/%v", op.K, i, op.V, op.N%3, op.F, op.C)] = true
		}
		fail := func(f string, a ...any) error {
			return fmt.Errorf("step %d (%s id#%d): %s", step, op.K, i, fmt.Sprintf(f, a...))
		}
		switch op.K {
		case "store":
			v := 1 + op.V%3
			if err := s.Store(id, c15Slab(id, v)); err != nil {
				return st, fail("Store failed: %v", err)
			}
			m.deltas[i] = v
		case "remove":
			if err := s.Remove(id); err != nil {
				return st, fail("Remove failed: %v", err)
			}
			m.deltas[i] = 0
			st.label("remove")
		case "get":
			want := m.view(i)
			if _, ok := m.deltas[i]; !ok {
				if c, ok := m.cache[i]; ok {
					want = c
				} else if b, ok := m.base[i]; ok {
					m.cache[i] = b
				}
			}
			got, found, err := s.Retrieve(id)
			if err != nil {
				return st, fail("Retrieve failed: %v", err)
			}
			if c15Version(got) != want || found != (want != 0) {
				return st, fail("Retrieve returns version %d found=%v, the view holds %d", c15Version(got), found, want)
			}
			if want != m.view(i) {
				return st, fail("harness: cache diverged from view (%d vs %d)", want, m.view(i))
			}
		case "getnodelta":
			want := m.base[i]
			if c, ok := m.cache[i]; ok {
				want = c
			} else if b, ok := m.base[i]; ok && op.C {
				m.cache[i] = b
			}
			got, found, err := s.RetrieveIgnoringDeltas(id, op.C)
			if err != nil {
				return st, fail("RetrieveIgnoringDeltas failed: %v", err)
			}
			if c15Version(got) != want || found != (want != 0) {
				return st, fail("RetrieveIgnoringDeltas returns version %d found=%v, committed is %d", c15Version(got), found, want)
			}
			if want != m.base[i] {
				return st, fail("cache-bypassing read returns %d but the committed version is %d", want, m.base[i])
			}
		case "commit", "ncommit":
			var owned []int
			for k := range m.deltas {
				if !isTemp(k) {
					owned = append(owned, k)
				}
			}
			sort.Slice(owned, func(a, b int) bool { return c15Universe[owned[a]].Compare(c15Universe[owned[b]]) < 0 })
			l.FailAt = nil
			injected := false
			if op.F > 0 {
				l.FailAt = map[int]bool{}
				for b := 0; b < 6; b++ {
					if op.F&(1<<b) != 0 {
						l.FailAt[l.Writes+b+1] = true
						if b == lowestBit(op.F) && b < len(owned) {
							injected = true // the first failing position is reached iff the commit issues that many writes
						}
					}
				}
			}
			logStart := len(l.Log)
			var err error
			w := 1 + op.N%4
			if op.K == "commit" {
				err = s.FastCommit(w)
			} else {
				err = s.NondeterministicFastCommit(w)
			}
			l.FailAt = nil
			if injected {
				var x *atree.ExternalError
				if err == nil || !errors.As(err, &x) || !errors.Is(err, ErrInjected) {
					return st, fail("commit with a failing ledger write returned %v, expected an external error wrapping the ledger's", err)
				}
				st.label("failed_commit")
			} else if err != nil {
				return st, fail("commit failed: %v", err)
			}
			// acknowledged writes leave the write set (read off the ledger's own log)
			ack := map[atree.SlabID]bool{}
			for _, le := range l.Log[logStart:] {
				if !le.Failed {
					ack[le.ID] = true
				}
			}
			for _, k := range owned {
				if ack[c15Universe[k]] {
					v := m.deltas[k]
					if v == 0 {
						delete(m.base, k)
					} else {
						m.base[k] = v
					}
					m.cache[k] = v
					delete(m.deltas, k)
				}
			}
			if !injected {
				for _, k := range owned {
					if _, still := m.deltas[k]; still {
						return st, fail("successful commit did not write id#%d", k)
					}
				}
				if op.K == "commit" {
					for x := logStart + 1; x < len(l.Log); x++ {
						if l.Log[x-1].ID.Compare(l.Log[x].ID) >= 0 {
							return st, fail("deterministic commit wrote %s before %s", l.Log[x-1].ID, l.Log[x].ID)
						}
					}
				}
			}
			if len(owned) > 0 {
				st.label("commit_with_changes")
			}
		case "dropdeltas":
			s.DropDeltas()
			if len(m.deltas) > 0 {
				st.label("drop_with_pending")
			}
			m.deltas = map[int]int{}
		case "dropcache":
			s.DropCache()
			m.cache = map[int]int{}
		case "preload":
			var ids []atree.SlabID
			var idx []int
			n := []int{1, 3, 4, 12, 16, 0}[op.N%6]
			for k := 0; k < n && k < len(c15Universe); k++ {
				j := (i + k) % len(c15Universe)
				ids = append(ids, c15Universe[j])
				idx = append(idx, j)
			}
			// worker counts below, at and far above the number of identifiers
			if err := s.BatchPreload(ids, []int{1, 2, 3, 4, 16, 64}[op.V%6]); err != nil {
				return st, fail("BatchPreload failed: %v", err)
			}
			for _, j := range idx {
				if b, ok := m.base[j]; ok {
					m.cache[j] = b
				}
			}
			if n >= 11 {
				st.label("parallel_preload")
			}
		case "recreate":
			s = NewStorage(l)
			m.cache = map[int]int{}
			if len(m.deltas) > 0 {
				st.label("drop_with_pending")
			}
			m.deltas = map[int]int{}
			st.label("recreate")
		default:
			return st, fmt.Errorf("verif: unknown storage op %q", op.K)
		}
		st.Ops++
		if err := check(step, op); err != nil {
			return st, err
		}
	}
	// final: dropping write set and cache reverts the view to the last commit
	s.DropDeltas()
	s.DropCache()
	for i := 0; i < c15Core; i++ {
		got, found, err := s.Retrieve(c15Universe[i])
		if err != nil {
			return st, fmt.Errorf("final Retrieve failed: %v", err)
		}
		if c15Version(got) != m.base[i] || found != (m.base[i] != 0) {
			return st, fmt.Errorf("after dropping write set and cache id#%d shows version %d, last commit has %d", i, c15Version(got), m.base[i])
		}
	}
	return st, nil
}

func lowestBit(x int) int {
	for b := 0; b < 30; b++ {
		if x&(1<<b) != 0 {
			return b
		}
	}
	return 0
}

var c15Kinds = []string{"store", "store", "remove", "get", "getnodelta", "commit", "ncommit", "dropdeltas", "dropcache", "preload", "recreate"}

func init() {
	register(&PropDef{
		ID:  "C15",
		New: func() any { return &SCase{} },
		Gen: func(t *rapid.T) any {
			// one case in 160 (thorough: in 48): a single commit of more than 2^16 pending slabs
			wideEvery := 160
			if thorough() {
				wideEvery = 48
			}
			if rapid.IntRange(0, wideEvery-1).Draw(t, "wide?") == wideEvery/2+3 { // (rapid favours small and boundary values: the selector avoids them)
				w := rapid.SampledFrom([]int{1<<16 - 1, 1 << 16, 1<<16 + 1, 1<<16 + 2, 1<<16 + 4097, 1<<17 + 1}).Draw(t, "wide")
				if rapid.Bool().Draw(t, "wide+") {
					w = 1<<16 + rapid.IntRange(1, 9000).Draw(t, "wideN")
				}
				c := &SCase{Prop: "C15", Wide: w, WK: rapid.Bool().Draw(t, "wk"), WN: rapid.IntRange(0, 31).Draw(t, "wn")}
				if rapid.IntRange(0, 2).Draw(t, "wf?") > 0 {
					c.WF = rapid.IntRange(1, w).Draw(t, "wf")
				}
				return c
			}
			n := rapid.IntRange(1, 60).Draw(t, "n")
			if thorough() {
				n = rapid.IntRange(1, 150).Draw(t, "n2")
			}
			c := &SCase{Prop: "C15", Ops: make([]SOp, n)}
			for i := range c.Ops {
				op := SOp{K: rapid.SampledFrom(c15Kinds).Draw(t, "k")}
				op.I = rapid.IntRange(0, c15Core-1).Draw(t, "i")
				switch op.K {
				case "store":
					op.V = rapid.IntRange(0, 2).Draw(t, "v")
				case "commit", "ncommit":
					op.N = rapid.IntRange(0, 3).Draw(t, "w")
					if rapid.IntRange(0, 2).Draw(t, "inj") == 0 {
						op.F = rapid.IntRange(1, 31).Draw(t, "f")
					}
				case "preload":
					op.N = rapid.IntRange(0, 5).Draw(t, "pn")
					op.V = rapid.IntRange(0, 5).Draw(t, "pw")
				case "getnodelta":
					op.C = rapid.Bool().Draw(t, "c")
				}
				c.Ops[i] = op
			}
			return c
		},
		Run: func(c any) (*CaseStats, error) {
			if c.(*SCase).Wide > 0 {
				return runC15Wide(c.(*SCase))
			}
			return runC15(c.(*SCase), nil)
		},
		Nontrivial: func(s *CaseStats) bool {
			return s.Has("commit_with_changes") && s.Has("remove") && (s.Has("drop_with_pending") || s.Has("failed_commit"))
		},
		Rule: "sequence contains a commit with pending changes, a removal, and either a drop/re-creation with pending changes or a commit with an injected ledger failure",
	})
}

// c15Exhaustive enumerates every op sequence up to maxLen over a reduced alphabet.
func c15Exhaustive(maxLen int) (seqs int, vis *c15Visit, firstErr error, failing *SCase) {
	vis = &c15Visit{states: map[string]bool{}, pairs: map[string]bool{}}
	alphabet := []SOp{
		{K: "store", I: 0, V: 0}, {K: "store", I: 0, V: 1}, {K: "store", I: 3, V: 0}, {K: "store", I: 2, V: 0},
		{K: "remove", I: 0}, {K: "remove", I: 2}, {K: "get", I: 0}, {K: "getnodelta", I: 0, C: true}, {K: "getnodelta", I: 0},
		{K: "commit", N: 1}, {K: "ncommit", N: 2}, {K: "commit", F: 1}, {K: "ncommit", F: 2},
		{K: "dropdeltas"}, {K: "dropcache"}, {K: "preload", I: 0, N: 1}, {K: "preload", I: 0, N: 3}, {K: "recreate"},
	}
	seq := make([]SOp, 0, maxLen)
	var rec func(d int)
	rec = func(d int) {
		if firstErr != nil {
			return
		}
		if d > 0 {
			seqs++
			c := &SCase{Prop: "C15", Ops: append([]SOp(nil), seq...)}
			if _, err := runC15(c, vis); err != nil {
				firstErr, failing = err, c
				return
			}
		}
		if d == maxLen {
			return
		}
		for _, a := range alphabet {
			seq = append(seq, a)
			rec(d + 1)
			seq = seq[:len(seq)-1]
		}
	}
	rec(0)
	return
}
