package harness

// c14.go: a failed commit loses nothing and a retry converges to the fault-free result.
// For each generated history every single failing ledger-write position (and sampled pairs)
// is enumerated.

import (
	"fmt"

	"pgregory.net/rapid"
)

func runWithFaults(cs *Case, faults map[int]bool) (*Engine, error) {
	e, err := NewEngine(cs.Cfg, Oracles{CmpEvery: 0})
	if err != nil {
		return nil, err
	}
	e.AllowCommitFaults = true
	// the initial commit of NewEngine is part of the write numbering: faults are positions > that
	base := e.L.Writes
	if faults != nil {
		e.L.FailAt = map[int]bool{}
		for p := range faults {
			e.L.FailAt[base+p] = true
		}
	}
	if err := e.Run(cs.Ops); err != nil {
		return e, err
	}
	if err := e.Commit(0); err != nil {
		return e, err
	}
	if err := e.checkFresh(e.L, e.Roots, "end of history"); err != nil {
		return e, err
	}
	return e, nil
}

func init() {
	g := scale(&GenCfg{
		Slabs: quickSlabs, MinOps: 2, MaxOps: 30,
		W: map[string]int{
			"app": 8, "ins": 5, "set": 6, "rem": 8, "pop": 1, "appN": 6, "remN": 4,
			"mset": 10, "mrem": 7, "mpop": 1, "msetN": 5, "mremN": 3, "styp": 1,
			"commit": 8, "reopen": 2, "evict": 1,
		},
		Roots: [][]RootSpec{
			{{K: "arr", Addr: 1, TI: 1}},
			{{K: "map", Addr: 1, TI: 2}},
			{{K: "arr", Addr: 1, TI: 1}, {K: "map", Addr: 2, TI: 2}},
			{{K: "arr", Addr: 2, TI: 1}, {K: "arr", Addr: 0, TI: 1}},
		},
		MaxBulk: 60, Keys: []int{12, 64},
		ValW: valNoComposite, MaxDepth: 2, MaxElems: 4, AcqW: [3]int{8, 1, 1}, NondetPct: 50,
	})
	register(&PropDef{
		ID:  "C14",
		New: func() any { return &Case{} },
		Gen: func(t *rapid.T) any { return g.genCase(t, "C14") },
		Run: func(c any) (*CaseStats, error) {
			cs := c.(*Case)
			ref, err := runWithFaults(cs, nil)
			if err != nil {
				if ref != nil {
					return ref.Stats, fmt.Errorf("fault-free run: %w", err)
				}
				return nil, err
			}
			st := ref.Stats
			W := ref.L.Writes - 1 // writes after the initial commit (which writes one register per non-temporary root)
			base := 0
			for _, r := range cs.Cfg.Roots {
				if r.Addr != 0 {
					base++
				}
			}
			W = ref.L.Writes - base
			limit := 60
			if thorough() {
				limit = 400
			}
			stride := 1
			if W > limit {
				stride = (W + limit - 1) / limit
			}
			st.Add("ledger_writes_in_reference", W)
			runs := 0
			try := func(f map[int]bool, what string) error {
				e, err := runWithFaults(cs, f)
				runs++
				if err != nil {
					return fmt.Errorf("%s: %w", what, err)
				}
				if d := DiffRegs(ref.L.Regs, e.L.Regs); d != "" {
					return fmt.Errorf("%s: after retrying, the ledger differs from the fault-free run: %s", what, d)
				}
				if e.Stats.Has("commit_fault_injected") {
					st.Add("faulty_runs_hit", 1)
				}
				if e.Stats.Has("commit_fault_after_partial_progress") {
					st.label("commit_fault_after_partial_progress")
				}
				return nil
			}
			for p := 1; p <= W; p += stride {
				if err := try(map[int]bool{p: true}, fmt.Sprintf("ledger write %d of %d fails", p, W)); err != nil {
					return st, err
				}
			}
			// pairs: a second failure shortly after the first (hits the retry), exhaustive for small W
			if W <= 12 {
				for p := 1; p <= W; p++ {
					for q := p + 1; q <= W+2; q++ {
						if err := try(map[int]bool{p: true, q: true}, fmt.Sprintf("ledger writes %d and %d fail", p, q)); err != nil {
							return st, err
						}
					}
				}
				st.label("pairs_exhaustive")
			} else {
				for p := 1; p <= W; p += stride * 3 {
					for _, d := range []int{1, 2, 5} {
						if err := try(map[int]bool{p: true, p + d: true, p + d + 1: true}, fmt.Sprintf("ledger writes %d, %d and %d fail", p, p+d, p+d+1)); err != nil {
							return st, err
						}
					}
				}
			}
			st.Add("faulty_runs", runs)
			return st, nil
		},
		Nontrivial: func(s *CaseStats) bool {
			return s.Extra["faulty_runs_hit"] >= 3 && s.Has("commit_fault_after_partial_progress")
		},
		Rule: "history whose commits issue >=3 ledger writes, at least one fault hitting a commit after it had already written something; every single fault position enumerated (stratified above the cap), pairs exhaustive for <=12 writes, triples sampled otherwise",
		Slab: caseSlab,
	})
}
