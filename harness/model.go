package harness

// model.go: the reference model — plain Go values mirroring what the library is
// supposed to hold — and the comparison of library values against it.

import (
	"fmt"
	"sort"
	"strconv"
	"strings"

	"github.com/onflow/atree"
)

// MV is a model value: U64, Str, MSome or *Node.
type MV interface{}

type MSome struct{ V MV }

type Ent struct {
	K MV
	V MV
}

// Node is a model container (array or map), root or nested.
type Node struct {
	ID    int
	IsMap bool
	TI    TI
	Elems []MV            // arrays
	Ents  map[string]*Ent // maps, by canonical key text
	Ins   map[string]int  // maps: insertion stamp per key (for expected order of full collisions)
	stamp int

	Parent *Node // nil for roots
	Addr   atree.Address
	Root   atree.SlabID // roots only: the identifier to reopen with
	VID    atree.ValueID
	Dig    *DigSpec // root maps with a generated digester; nil = default digester

	// library side (R1: at most one designated handle per container)
	HA *atree.Array
	HM *atree.OrderedMap
	// bookkeeping for labels
	HandleStep      int // step at which the handle was acquired
	ParentShape     int // shape generation of the parent when the handle was acquired
	Shape           int // incremented whenever this container splits/merges (slab count changes)
	LastSlabs       int
	WasInlined      bool
	Detached        bool
	Former          *Node // container it was detached from (C11)
	Gen             int   // changes whenever the designated handle object of this container changes
	HandleParentGen int   // Gen of the parent at the time this container's handle was obtained
	SeenInline      bool
	SeenStandalone  bool
	Seed            uint64 // maps: hash seed as first observed (never changes; composite maps may adopt a shared seed, R7)
	SeedSeen        bool
}

func (n *Node) Count() int {
	if n.IsMap {
		return len(n.Ents)
	}
	return len(n.Elems)
}

func (n *Node) SortedKeys() []string {
	ks := make([]string, 0, len(n.Ents))
	for k := range n.Ents {
		ks = append(ks, k)
	}
	sort.Strings(ks)
	return ks
}

func (n *Node) HasHandle() bool { return n.HA != nil || n.HM != nil }

// Children lists the directly nested containers of n in deterministic order.
func (n *Node) Children() []*Node {
	var out []*Node
	if n.IsMap {
		for _, k := range n.SortedKeys() {
			if c := nodeOf(n.Ents[k].V); c != nil {
				out = append(out, c)
			}
		}
		return out
	}
	for _, e := range n.Elems {
		if c := nodeOf(e); c != nil {
			out = append(out, c)
		}
	}
	return out
}

func nodeOf(m MV) *Node {
	for {
		switch x := m.(type) {
		case *Node:
			return x
		case MSome:
			m = x.V
		default:
			return nil
		}
	}
}

func wrapLevels(m MV) int {
	n := 0
	for {
		x, ok := m.(MSome)
		if !ok {
			return n
		}
		n++
		m = x.V
	}
}

// canonKey gives the canonical text of a scalar model key ("caller's key equality").
func canonKey(m MV) string {
	switch x := m.(type) {
	case U64:
		return "u" + strconv.FormatUint(uint64(x), 10)
	case Str:
		return "s" + x.S
	case MSome:
		return "o" + canonKey(x.V)
	}
	panic(fmt.Sprintf("verif: bad model key %T", m))
}

// keyValue turns a model key into the library value.
func keyValue(m MV) atree.Value {
	switch x := m.(type) {
	case U64:
		return x
	case Str:
		return x
	case MSome:
		return Some{V: keyValue(x.V)}
	}
	panic(fmt.Sprintf("verif: bad model key %T", m))
}

// canonOfValue gives the canonical key text of a library scalar value.
func canonOfValue(v atree.Value) (string, error) {
	switch x := v.(type) {
	case U64:
		return "u" + strconv.FormatUint(uint64(x), 10), nil
	case Str:
		return "s" + x.S, nil
	case Some:
		s, err := canonOfValue(x.V)
		return "o" + s, err
	}
	return "", fmt.Errorf("library returned a key of unexpected type %T", v)
}

func describeMV(m MV) string {
	switch x := m.(type) {
	case U64:
		return x.String()
	case Str:
		return x.String()
	case MSome:
		return "Some(" + describeMV(x.V) + ")"
	case *Node:
		if x.IsMap {
			return fmt.Sprintf("map#%d(%d)", x.ID, len(x.Ents))
		}
		return fmt.Sprintf("arr#%d(%d)", x.ID, len(x.Elems))
	}
	return fmt.Sprintf("%v", m)
}

// CmpOpts tunes cmpValue.
type CmpOpts struct {
	// CheckVID: compare the ValueID of nested containers against the model.
	CheckVID bool
	// Hip: hash-input provider for keyed lookups (nil = the plain one)
	Hip atree.HashInputProvider
}

// cmpValue checks that library value v has exactly the content of model value m.
func cmpValue(v atree.Value, m MV, path string, o CmpOpts) error {
	switch x := m.(type) {
	case U64:
		g, ok := v.(U64)
		if !ok || g != x {
			return fmt.Errorf("%s: got %v (%T), model has %v", path, v, v, x)
		}
		return nil
	case Str:
		g, ok := v.(Str)
		if !ok || g.S != x.S {
			return fmt.Errorf("%s: got %v (%T), model has %v", path, v, v, x)
		}
		return nil
	case MSome:
		g, ok := v.(Some)
		if !ok {
			return fmt.Errorf("%s: got %v (%T), model has a wrapped value", path, v, v)
		}
		return cmpValue(g.V, x.V, path+"?", o)
	case *Node:
		if x.IsMap {
			g, ok := v.(*atree.OrderedMap)
			if !ok {
				return fmt.Errorf("%s: got %T, model has a map", path, v)
			}
			return cmpMap(g, x, path, o)
		}
		g, ok := v.(*atree.Array)
		if !ok {
			return fmt.Errorf("%s: got %T, model has an array", path, v)
		}
		return cmpArray(g, x, path, o)
	}
	return fmt.Errorf("%s: unknown model value %T", path, m)
}

func cmpArray(a *atree.Array, n *Node, path string, o CmpOpts) error {
	if o.CheckVID && a.ValueID() != n.VID {
		return fmt.Errorf("%s: array value id %s, model has %s", path, a.ValueID(), n.VID)
	}
	if !CompareTI(a.Type(), n.TI) {
		return fmt.Errorf("%s: array type %v, model has %v", path, a.Type(), n.TI)
	}
	if a.Count() != uint64(len(n.Elems)) {
		return fmt.Errorf("%s: array count %d, model has %d", path, a.Count(), len(n.Elems))
	}
	if o.CheckVID && a.Address() != n.Addr {
		return fmt.Errorf("%s: array owner %x, model has %x", path, a.Address(), n.Addr)
	}
	i := 0
	var ferr error
	err := a.IterateReadOnly(func(v atree.Value) (bool, error) {
		if i >= len(n.Elems) {
			ferr = fmt.Errorf("%s: iteration yields more than %d elements", path, len(n.Elems))
			return false, nil
		}
		if err := cmpValue(v, n.Elems[i], path+"["+strconv.Itoa(i)+"]", o); err != nil {
			ferr = err
			return false, nil
		}
		i++
		return true, nil
	})
	if err != nil {
		return fmt.Errorf("%s: read-only iteration failed: %w", path, err)
	}
	if ferr != nil {
		return ferr
	}
	if i != len(n.Elems) {
		return fmt.Errorf("%s: iteration yields %d elements, model has %d", path, i, len(n.Elems))
	}
	// positional access must agree with sequential traversal
	cnt := uint64(len(n.Elems))
	for _, idx := range lookupSample(cnt) {
		v, err := a.Get(idx)
		if err != nil {
			return fmt.Errorf("%s: Get(%d) of %d failed: %w", path, idx, cnt, err)
		}
		if c := nodeOf(n.Elems[idx]); c != nil {
			// containers were compared in depth by the traversal above: identity is enough here
			if err := cmpIdentity(v, c, path+"["+strconv.FormatUint(idx, 10)+"] by position"); err != nil {
				return err
			}
			continue
		}
		if err := cmpValue(v, n.Elems[idx], path+"["+strconv.FormatUint(idx, 10)+"] by position", o); err != nil {
			return err
		}
	}
	return nil
}

// lookupSample: all positions of small containers, else boundaries plus a deterministic sample.
func lookupSample(cnt uint64) []uint64 {
	if cnt == 0 {
		return nil
	}
	if cnt <= 200 {
		out := make([]uint64, cnt)
		for i := range out {
			out[i] = uint64(i)
		}
		return out
	}
	out := []uint64{0, 1, cnt - 2, cnt - 1, cnt / 2}
	for i := uint64(0); i < 59; i++ {
		out = append(out, mix64(cnt*131+i)%cnt)
	}
	return out
}

func cmpIdentity(v atree.Value, c *Node, path string) error {
	for {
		s, ok := v.(Some)
		if !ok {
			break
		}
		v = s.V
	}
	switch x := v.(type) {
	case *atree.Array:
		if c.IsMap || x.ValueID() != c.VID || x.Count() != uint64(len(c.Elems)) {
			return fmt.Errorf("%s: got array %s with %d elements, model has container #%d (%s)", path, x.ValueID(), x.Count(), c.ID, describeMV(c))
		}
	case *atree.OrderedMap:
		if !c.IsMap || x.ValueID() != c.VID || x.Count() != uint64(len(c.Ents)) {
			return fmt.Errorf("%s: got map %s with %d entries, model has container #%d (%s)", path, x.ValueID(), x.Count(), c.ID, describeMV(c))
		}
	default:
		return fmt.Errorf("%s: got %T, model has container #%d", path, v, c.ID)
	}
	return nil
}

func cmpMap(m *atree.OrderedMap, n *Node, path string, o CmpOpts) error {
	if o.CheckVID && m.ValueID() != n.VID {
		return fmt.Errorf("%s: map value id %s, model has %s", path, m.ValueID(), n.VID)
	}
	if !CompareTI(m.Type(), n.TI) {
		return fmt.Errorf("%s: map type %v, model has %v", path, m.Type(), n.TI)
	}
	if m.Count() != uint64(len(n.Ents)) {
		return fmt.Errorf("%s: map count %d, model has %d", path, m.Count(), len(n.Ents))
	}
	if o.CheckVID {
		if m.Address() != n.Addr {
			return fmt.Errorf("%s: map owner %x, model has %x", path, m.Address(), n.Addr)
		}
		// the hash seed of a map is fixed when the map is created and survives every reload (composite maps may adopt
		// the seed they share with same-typed siblings, R7)
		if !n.TI.Comp {
			if !n.SeedSeen {
				n.Seed, n.SeedSeen = m.Seed(), true
			} else if m.Seed() != n.Seed {
				return fmt.Errorf("%s: map seed changed from %d to %d", path, n.Seed, m.Seed())
			}
		}
	}
	seen := make(map[string]bool, len(n.Ents))
	var ferr error
	err := m.IterateReadOnly(func(k, v atree.Value) (bool, error) {
		ck, err := canonOfValue(k)
		if err != nil {
			ferr = fmt.Errorf("%s: %w", path, err)
			return false, nil
		}
		if seen[ck] {
			ferr = fmt.Errorf("%s: key %s enumerated twice", path, ck)
			return false, nil
		}
		seen[ck] = true
		e, ok := n.Ents[ck]
		if !ok {
			ferr = fmt.Errorf("%s: key %s enumerated but absent from the model", path, short(ck))
			return false, nil
		}
		if err := cmpValue(v, e.V, path+"{"+short(ck)+"}", o); err != nil {
			ferr = err
			return false, nil
		}
		return true, nil
	})
	if err != nil {
		return fmt.Errorf("%s: read-only iteration failed: %w", path, err)
	}
	if ferr != nil {
		return ferr
	}
	if len(seen) != len(n.Ents) {
		return fmt.Errorf("%s: iteration yields %d keys, model has %d", path, len(seen), len(n.Ents))
	}
	// keyed access must agree with sequential traversal
	ks := n.SortedKeys()
	for _, i := range lookupSample(uint64(len(ks))) {
		ck := ks[i]
		e := n.Ents[ck]
		hip := o.Hip
		if hip == nil {
			hip = hashInput
		}
		v, err := m.Get(compareValue, hip, keyValue(e.K))
		if err != nil {
			return fmt.Errorf("%s: Get(%s) of a present key failed: %w", path, short(ck), err)
		}
		if c := nodeOf(e.V); c != nil {
			if err := cmpIdentity(v, c, path+"{"+short(ck)+"} by key"); err != nil {
				return err
			}
			continue
		}
		if err := cmpValue(v, e.V, path+"{"+short(ck)+"} by key", o); err != nil {
			return err
		}
	}
	return nil
}

func short(s string) string {
	if len(s) > 16 {
		return s[:16] + "…(" + strconv.Itoa(len(s)) + ")"
	}
	return s
}

// deepCopyMV copies a model value (nodes are copied without library handles).
func deepCopyMV(m MV, parent *Node) MV {
	switch x := m.(type) {
	case MSome:
		return MSome{V: deepCopyMV(x.V, parent)}
	case *Node:
		c := &Node{ID: x.ID, IsMap: x.IsMap, TI: x.TI, Parent: parent, Addr: x.Addr, Root: x.Root, VID: x.VID, Dig: x.Dig, Detached: x.Detached, stamp: x.stamp}
		if x.IsMap {
			c.Ents = make(map[string]*Ent, len(x.Ents))
			c.Ins = make(map[string]int, len(x.Ins))
			for k, e := range x.Ents {
				c.Ents[k] = &Ent{K: e.K, V: deepCopyMV(e.V, c)}
				c.Ins[k] = x.Ins[k]
			}
		} else {
			c.Elems = make([]MV, len(x.Elems))
			for i, e := range x.Elems {
				c.Elems[i] = deepCopyMV(e, c)
			}
		}
		return c
	}
	return m
}

// modelSummary renders a model value compactly (for samples and messages).
func modelSummary(m MV, depth int) string {
	switch x := m.(type) {
	case *Node:
		if depth <= 0 {
			return describeMV(x)
		}
		var sb strings.Builder
		if x.IsMap {
			sb.WriteString("{")
			for i, k := range x.SortedKeys() {
				if i > 0 {
					sb.WriteString(" ")
				}
				if i >= 6 {
					sb.WriteString("…")
					break
				}
				sb.WriteString(short(k) + ":" + modelSummary(x.Ents[k].V, depth-1))
			}
			sb.WriteString("}")
		} else {
			sb.WriteString("[")
			for i, e := range x.Elems {
				if i > 0 {
					sb.WriteString(" ")
				}
				if i >= 6 {
					sb.WriteString("…")
					break
				}
				sb.WriteString(modelSummary(e, depth-1))
			}
			sb.WriteString("]")
		}
		return sb.String()
	case MSome:
		return "Some(" + modelSummary(x.V, depth) + ")"
	}
	return describeMV(m)
}
