package harness

// c18.go: rejected requests are categorised and leave no trace; failures of
// caller-supplied components during lookups surface as external errors.

import (
	"errors"
	"fmt"

	"github.com/onflow/atree"
	"pgregory.net/rapid"
)

var c18NoiseKinds = []string{"badget", "badset", "badins", "badrem", "badrange", "mbadget", "mbadrem", "mbadhas", "mbadset", "badid", "badreopen"}

func interleave(ops, noise []Op) []Op {
	if len(noise) == 0 {
		return ops
	}
	out := make([]Op, 0, len(ops)*3)
	j := 0
	for _, op := range ops {
		out = append(out, noise[j%len(noise)], noise[(j+1)%len(noise)])
		j += 2
		out = append(out, op)
	}
	out = append(out, noise[j%len(noise)])
	return out
}

// lookupFaults: for lookups on the final state, fail each call of each caller-supplied component in turn.
func (e *Engine) lookupFaults() error {
	if err := e.Commit(0); err != nil {
		return err
	}
	wantExternal := func(what string, err error) error {
		var x *atree.ExternalError
		if err == nil {
			return e.viol("%s: the injected failure was swallowed", what)
		}
		if !errors.As(err, &x) || !errors.Is(err, ErrInjected) {
			return e.viol("%s: expected an external error wrapping the component's error, got %T: %v", what, err, err)
		}
		if isUser(err) || isFatal(err) {
			return e.viol("%s: injected component failure categorised as user/fatal: %v", what, err)
		}
		return nil
	}
	for _, r := range e.Roots {
		if r.Addr == atree.AddressUndefined {
			continue
		}
		cold := func() (*atree.PersistentSlabStorage, *atree.Array, *atree.OrderedMap, error) {
			st := NewStorage(e.L)
			if r.IsMap {
				m, err := atree.NewMapWithRootID(st, r.Root, e.digesterFor(r))
				return st, nil, m, err
			}
			a, err := atree.NewArrayWithRootID(st, r.Root)
			return st, a, nil, err
		}
		if r.IsMap {
			ks := r.SortedKeys()
			if len(ks) == 0 {
				continue
			}
			for _, pick := range []int{0, len(ks) / 2, len(ks) - 1} {
				key := keyValue(r.Ents[ks[pick]].K)
				for _, has := range []bool{false, true} {
					look := func(m *atree.OrderedMap, cb *Callbacks) error {
						if has {
							_, err := m.Has(cb.Compare, cb.HashInput, key)
							return err
						}
						_, err := m.Get(cb.Compare, cb.HashInput, key)
						return err
					}
					// fault-free call counts on a cold storage
					_, _, m, err := cold()
					if err != nil {
						return e.viol("cannot open root: %v", err)
					}
					e.L.Reads, e.L.FailRead = 0, 0
					cb := &Callbacks{Groups: e.CB.Groups}
					if err := look(m, cb); err != nil {
						return e.viol("fault-free lookup failed: %v", err)
					}
					reads, cmps, hips := e.L.Reads, cb.CmpCalls, cb.HipCalls
					for k := 1; k <= cmps; k++ {
						_, _, m, _ := cold()
						if err := wantExternal(fmt.Sprintf("map lookup (has=%v), comparator call %d of %d fails", has, k, cmps), look(m, &Callbacks{FailCmpAt: k, Groups: e.CB.Groups})); err != nil {
							return err
						}
						e.Stats.Add("injected_lookup_faults", 1)
					}
					for k := 1; k <= hips; k++ {
						_, _, m, _ := cold()
						if err := wantExternal(fmt.Sprintf("map lookup (has=%v), hash-input call %d of %d fails", has, k, hips), look(m, &Callbacks{FailHipAt: k, Groups: e.CB.Groups})); err != nil {
							return err
						}
						e.Stats.Add("injected_lookup_faults", 1)
					}
					for k := 1; k <= reads; k++ {
						_, _, m, _ := cold()
						e.L.Reads, e.L.FailRead = 0, k
						err := look(m, &Callbacks{Groups: e.CB.Groups})
						e.L.FailRead = 0
						if err := wantExternal(fmt.Sprintf("map lookup (has=%v), ledger read %d of %d fails", has, k, reads), err); err != nil {
							return err
						}
						e.Stats.Add("injected_lookup_faults", 1)
						e.Stats.label("ledger_read_fault")
					}
				}
			}
			// iteration with failing ledger reads
			_, _, m, err := cold()
			if err != nil {
				return e.viol("cannot open root: %v", err)
			}
			e.L.Reads, e.L.FailRead = 0, 0
			seen := 0
			nop := func(k, v atree.Value) (bool, error) { seen++; return seen < 1<<22, nil }
			if err := m.IterateReadOnly(nop); err != nil {
				return e.viol("fault-free iteration failed: %v", err)
			}
			reads := e.L.Reads
			for k := 1; k <= reads; k++ {
				_, _, m, _ := cold()
				e.L.Reads, e.L.FailRead = 0, k
				err := m.IterateReadOnly(nop)
				e.L.FailRead = 0
				if err := wantExternal(fmt.Sprintf("map iteration, ledger read %d of %d fails", k, reads), err); err != nil {
					return err
				}
				e.Stats.Add("injected_lookup_faults", 1)
			}
			continue
		}
		cnt := len(r.Elems)
		if cnt == 0 {
			continue
		}
		for _, idx := range []int{0, cnt / 2, cnt - 1} {
			_, a, _, err := cold()
			if err != nil {
				return e.viol("cannot open root: %v", err)
			}
			e.L.Reads, e.L.FailRead = 0, 0
			if _, err := a.Get(uint64(idx)); err != nil {
				return e.viol("fault-free Get failed: %v", err)
			}
			reads := e.L.Reads
			for k := 1; k <= reads; k++ {
				_, a, _, _ := cold()
				e.L.Reads, e.L.FailRead = 0, k
				_, err := a.Get(uint64(idx))
				e.L.FailRead = 0
				if err := wantExternal(fmt.Sprintf("array Get(%d), ledger read %d of %d fails", idx, k, reads), err); err != nil {
					return err
				}
				e.Stats.Add("injected_lookup_faults", 1)
				e.Stats.label("ledger_read_fault")
			}
		}
		_, a, _, err := cold()
		if err != nil {
			return e.viol("cannot open root: %v", err)
		}
		e.L.Reads, e.L.FailRead = 0, 0
		nop := func(v atree.Value) (bool, error) { return true, nil }
		if err := a.IterateReadOnly(nop); err != nil {
			return e.viol("fault-free iteration failed: %v", err)
		}
		reads := e.L.Reads
		for k := 1; k <= reads; k++ {
			_, a, _, _ := cold()
			e.L.Reads, e.L.FailRead = 0, k
			err := a.IterateReadOnly(nop)
			e.L.FailRead = 0
			if err := wantExternal(fmt.Sprintf("array iteration, ledger read %d of %d fails", k, reads), err); err != nil {
				return err
			}
			e.Stats.Add("injected_lookup_faults", 1)
		}
	}
	e.L.Reads, e.L.FailRead = 0, 0
	return nil
}

func init() {
	g := scale(&GenCfg{
		Slabs: quickSlabs, MinOps: 2, MaxOps: 30,
		W: map[string]int{
			"app": 8, "ins": 6, "set": 6, "rem": 7, "get": 1, "pop": 1, "appN": 6, "remN": 3,
			"mset": 12, "mget": 1, "mrem": 7, "mpop": 1, "msetN": 6, "mremN": 3, "styp": 1,
			"reopen": 1, "commit": 2, "evict": 1,
		},
		Roots: [][]RootSpec{
			{{K: "arr", Addr: 1, TI: 1}},
			{{K: "map", Addr: 1, TI: 2}},
			{{K: "arr", Addr: 1, TI: 1}, {K: "map", Addr: 2, TI: 2}},
		},
		MaxBulk: 80, Keys: []int{12, 40, 200},
		ValW: valAll, MaxDepth: 2, MaxElems: 4, AcqW: [3]int{8, 1, 1},
		CollLimits: []uint32{0, 1, 2, 255},
	})
	g.DigRootsPct = 50
	g.HipGroupsPct = 15
	noiseVal := &GenCfg{ValW: map[string]int{"u": 4, "s0": 2, "s2": 2, "s5": 3, "s6": 3, "some": 2}, MaxDepth: 0}
	register(&PropDef{
		ID:  "C18",
		New: func() any { return &Case{} },
		Gen: func(t *rapid.T) any {
			c := g.genCase(t, "C18")
			n := rapid.IntRange(2, 10).Draw(t, "nnoise")
			for i := 0; i < n; i++ {
				op := Op{K: rapid.SampledFrom(c18NoiseKinds).Draw(t, "nk"), T: rapid.SampledFrom(targetSel).Draw(t, "nt"), P: rapid.Uint64Range(0, 1<<20).Draw(t, "np")}
				if op.K == "badset" || op.K == "badins" || op.K == "mbadset" {
					op.V = noiseVal.genVD(t, 0)
				}
				c.Noise = append(c.Noise, op)
			}
			return c
		},
		Run: func(c any) (*CaseStats, error) {
			cs := c.(*Case)
			or := Oracles{CmpEvery: 1, CheckHandles: true}
			base, err := NewEngine(cs.Cfg, or)
			if err != nil {
				return nil, err
			}
			if err := base.Run(cs.Ops); err != nil {
				return base.Stats, fmt.Errorf("history without rejected requests: %w", err)
			}
			if err := base.Commit(0); err != nil {
				return base.Stats, err
			}
			noisy, err := NewEngine(cs.Cfg, or)
			if err != nil {
				return nil, err
			}
			// a rejected request leaves the pending write set exactly as it was
			var before map[atree.SlabID][]byte
			noisy.Or.EveryStep = nil
			mixed := interleave(cs.Ops, cs.Noise)
			for i := range mixed {
				noisy.step, noisy.curOp = i, &mixed[i]
				isNoise := false
				for _, k := range c18NoiseKinds {
					if mixed[i].K == k {
						isNoise = true
					}
				}
				var nd uint
				if isNoise {
					nd = noisy.St.Deltas()
					if i%5 == 0 {
						if before, err = noisy.encodeTrees(nil); err != nil {
							return noisy.Stats, err
						}
					} else {
						before = nil
					}
				}
				if err := noisy.Apply(&mixed[i]); err != nil {
					return noisy.Stats, fmt.Errorf("history with rejected requests: %w", err)
				}
				if err := noisy.afterStep(); err != nil {
					return noisy.Stats, fmt.Errorf("history with rejected requests: %w", err)
				}
				if isNoise {
					if d := noisy.St.Deltas(); d != nd {
						return noisy.Stats, noisy.viol("rejected request changed the number of pending slabs from %d to %d", nd, d)
					}
					if before != nil {
						after, err := noisy.encodeTrees(nil)
						if err != nil {
							return noisy.Stats, err
						}
						if len(after) != len(before) {
							return noisy.Stats, noisy.viol("rejected request changed the number of slabs from %d to %d", len(before), len(after))
						}
						for id, b := range before {
							if string(after[id]) != string(b) {
								return noisy.Stats, noisy.viol("rejected request changed slab %s", id)
							}
						}
					}
				}
			}
			noisy.step, noisy.curOp = len(mixed), nil
			if err := noisy.Finish(); err != nil {
				return noisy.Stats, err
			}
			if err := noisy.Commit(0); err != nil {
				return noisy.Stats, err
			}
			if d := DiffRegs(base.L.Regs, noisy.L.Regs); d != "" {
				return noisy.Stats, fmt.Errorf("the history with rejected requests commits different registers than the history without them: %s", d)
			}
			if err := noisy.lookupFaults(); err != nil {
				return noisy.Stats, err
			}
			return noisy.Stats, nil
		},
		Nontrivial: func(s *CaseStats) bool {
			return s.Labels["rejected"] >= 4 && s.Has("multi_slab") && s.Extra["injected_lookup_faults"] >= 3
		},
		Rule: ">=4 rejected requests interleaved into a history that reaches a multi-slab container, and >=3 injected component failures during lookups; distinct = distinct (history, rejected requests)",
		Slab: caseSlab,
	})
}
