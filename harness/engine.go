package harness

// engine.go: the container-tree engine.  It interprets an operation list (plain
// data) against the real library and against the reference model, keeping the
// handle discipline of DESIGN.md R1/R2, and calls the configured oracles.

import (
	"encoding/binary"
	"errors"
	"fmt"
	"os"
	"strconv"

	"github.com/onflow/atree"
)

// ---------------------------------------------------------------- case description (JSON-able)

// VD describes a value to create.
type VD struct {
	K string `json:"k"`           // u, s, some, arr, map, cmap
	N uint64 `json:"n,omitempty"` // uint value / string seed / type number
	Z int    `json:"z,omitempty"` // string size class (see strLen)
	D int    `json:"d,omitempty"` // string length delta within class
	W int    `json:"w,omitempty"` // some: wrapper levels (1..3)
	L int    `json:"l,omitempty"` // containers: initial element count
	E *VD    `json:"e,omitempty"` // some: inner value; containers: element recipe
}

// Op is one step of a history.
type Op struct {
	K string `json:"k"`
	T uint   `json:"t,omitempty"` // target container selector
	P uint64 `json:"p,omitempty"` // position / key index
	V *VD    `json:"v,omitempty"`
	N int    `json:"n,omitempty"` // bulk count / worker count
	D int    `json:"d,omitempty"` // disposition of handed-back values: 0 dispose, 1 keep detached
	A int    `json:"a,omitempty"` // handle acquisition: 0 reuse, 1 re-get through parent, 2 via mutable iteration of parent
}

// RootSpec describes an initial root container.
type RootSpec struct {
	K    string   `json:"k"`             // arr, map, cmap
	Addr uint64   `json:"addr"`          // 0 = temporary address
	TI   uint64   `json:"ti,omitempty"`  // type number
	Dig  *DigSpec `json:"dig,omitempty"` // maps: generated digester (nil = default)
}

// Config is the per-case configuration.
type Config struct {
	Slab         uint32     `json:"slab"`
	CollLimit    uint32     `json:"coll_limit,omitempty"` // 0 => library default (255) unless CollLimitSet
	CollSet      bool       `json:"coll_set,omitempty"`
	Keys         int        `json:"keys,omitempty"` // key universe size
	Roots        []RootSpec `json:"roots"`
	NondetCommit bool       `json:"nondet_commit,omitempty"`
	Workers      int        `json:"workers,omitempty"`
	HipGroups    int        `json:"hip_groups,omitempty"`     // >0: keys collide at the first level of the DEFAULT digester (see Callbacks.Groups)
	LedgerAPI    bool       `json:"ledger_api,omitempty"`     // the storage reaches the registers through atree.LedgerBaseStorage
	AllowF4      bool       `json:"allow_known_f4,omitempty"` // replay of known finding F4 only: do not exclude it by construction
	AllowF6      bool       `json:"allow_known_f6,omitempty"` // replay of known finding F6 only: compare bytes across schedules although a map was transferred from the temporary address
	KeepGlobals  bool       `json:"-"`                        // C16: globals were set once before the goroutines started
}

// Case is the replay unit.
type Case struct {
	Prop  string `json:"prop"`
	Cfg   Config `json:"cfg"`
	Ops   []Op   `json:"ops"`
	Noise []Op   `json:"noise,omitempty"` // C18: requests that must be rejected, interleaved with Ops
	Note  string `json:"note,omitempty"`
}

// Oracles selects what is checked while interpreting.
type Oracles struct {
	CmpEvery              int  // full model comparison every k steps (0 = only at the end)
	OpResults             bool // compare per-op results (always cheap; on by default via NewEngine)
	Verify                bool // in-repo VerifyArray/VerifyMap on every root after each step
	VerifySer             bool // in-repo Verify*Serialization at commits
	Tree                  bool // independent structural oracle (C05) after each step
	Sizes                 bool // reported size == written bytes (C06) after each step
	RoundTrip             bool // encode/decode/flags (C07) at commits and every step on live slabs
	Health                bool // leak / dangling / double ownership (C09) after each step
	Inline                bool // inline rule + stable identifiers (C10) after each step
	FreshAtCommit         bool // at each commit: fresh storage over the ledger equals the model (C03)
	NoWriteBetweenCommits bool // C03
	CrashEvery            int  // crash-point check every k steps (C03); 0 = off
	Iter                  bool // iterator battery (C13) every CmpEvery steps
	CheckHandles          bool // compare the view through every live handle too
	QuietAfterEvict       bool // no whole-state oracle (which would load every slab) between an eviction and the next commit
	BlindDispose          bool // C09: handed-back large values are sometimes removed by identifier without loading them
	PopOrder              bool // C13: map PopIterate yields the reverse of the canonical order
	Isolation             bool // C11: ops on detached containers leave every other tree byte-identical
	EveryStep             func(e *Engine) error
	AtCommit              func(e *Engine) error
}

// Violation is a property violation found by the engine.
type Violation struct {
	Step int
	Op   *Op
	Msg  string
}

func (v *Violation) Error() string {
	if v.Op != nil {
		return fmt.Sprintf("step %d (%s): %s", v.Step, v.Op.K, v.Msg)
	}
	return fmt.Sprintf("step %d: %s", v.Step, v.Msg)
}

// Engine interprets a case.
type Engine struct {
	Cfg   Config
	Or    Oracles
	L     *Ledger
	St    *atree.PersistentSlabStorage
	CB    *Callbacks
	Roots []*Node
	Stats *CaseStats

	nextNode    int
	quiet       bool
	plainMaps   int // nested plain maps created so far (see excludeF4)
	step        int
	curOp       *Op
	commitLog   int                     // len(L.Log) right after the last commit
	commitRegs  map[atree.SlabID][]byte // ledger snapshot at the last commit
	commitModel []*Node                 // deep copy of root models at the last commit
	commits     int
	trace       []string
	keyCache    map[uint64]MV
	// results of ops, for differentials (C08/C18)
	Results           []string
	RecordResults     bool
	DebugVerify       bool // debugging aid: run the in-repo verifiers after every primitive sub-operation
	AllowCommitFaults bool // C14: injected ledger failures are expected and retried
	// limits (read at start)
	MaxArrElem, MaxMapElem, MaxMapKey uint32
}

var (
	addrA = atree.Address{0, 0, 0, 0, 0, 0, 0, 1}
)

func addrOf(n uint64) atree.Address {
	var a atree.Address
	binary.BigEndian.PutUint64(a[:], n)
	return a
}

// ApplyGlobals sets the library's process-global settings (R9: never while goroutines use the library).
func ApplyGlobals(cfg Config) {
	if cfg.Slab == 0 {
		cfg.Slab = 1024
	}
	atree.VerifSetSlabSize(cfg.Slab)
	if cfg.CollSet {
		atree.VerifSetMaxCollisionLimitPerDigest(cfg.CollLimit)
	} else {
		atree.VerifSetMaxCollisionLimitPerDigest(255)
	}
}

// NewEngine applies the global settings of cfg and creates the roots.
func NewEngine(cfg Config, or Oracles) (*Engine, error) {
	if cfg.Slab == 0 {
		cfg.Slab = 1024
	}
	if !cfg.KeepGlobals {
		ApplyGlobals(cfg)
	}
	if cfg.Keys == 0 {
		cfg.Keys = 64
	}
	if cfg.Workers == 0 {
		cfg.Workers = 2
	}
	e := &Engine{
		Cfg:         cfg,
		Or:          or,
		L:           NewLedger(),
		CB:          &Callbacks{Groups: cfg.HipGroups},
		Stats:       newCaseStats(),
		keyCache:    map[uint64]MV{},
		DebugVerify: os.Getenv("VERIF_DEBUG_VERIFY") != "",
	}
	e.L.ViaLedgerAPI = cfg.LedgerAPI
	e.St = NewStorage(e.L)
	e.MaxArrElem = atree.MaxInlineArrayElementSize()
	e.MaxMapElem = atree.MaxInlineMapElementSize()
	e.MaxMapKey = atree.MaxInlineMapKeySize()
	for _, rs := range cfg.Roots {
		if _, err := e.newRoot(rs); err != nil {
			return nil, err
		}
	}
	// the history starts from a committed state holding the empty roots
	if err := e.doCommit(1); err != nil {
		return nil, e.viol("initial commit failed: %v", err)
	}
	e.commitRegs = e.L.Snapshot()
	e.commitLog = len(e.L.Log)
	e.commitModel = e.copyRoots()
	return e, nil
}

// co: comparison options used by the engine (value ids checked, keyed lookups with the engine's hash input).
func (e *Engine) co() CmpOpts { return CmpOpts{CheckVID: true, Hip: e.CB.PlainHIP} }

func (e *Engine) viol(format string, args ...any) error {
	return &Violation{Step: e.step, Op: e.curOp, Msg: fmt.Sprintf(format, args...)}
}

func (e *Engine) newRoot(rs RootSpec) (*Node, error) {
	addr := addrOf(rs.Addr)
	n := &Node{ID: e.nextNode, Addr: addr}
	e.nextNode++
	switch rs.K {
	case "arr":
		n.TI = TI{N: rs.TI}
		a, err := atree.NewArray(e.St, addr, n.TI)
		if err != nil {
			return nil, e.viol("NewArray failed: %v", err)
		}
		n.HA = a
		n.Root = a.SlabID()
		n.VID = a.ValueID()
	case "map", "cmap":
		n.IsMap = true
		n.TI = TI{N: rs.TI, Comp: rs.K == "cmap"}
		n.Ents = map[string]*Ent{}
		n.Ins = map[string]int{}
		n.Dig = rs.Dig
		m, err := atree.NewMap(e.St, addr, e.digesterFor(n), n.TI)
		if err != nil {
			return nil, e.viol("NewMap failed: %v", err)
		}
		n.HM = m
		n.Root = m.SlabID()
		n.VID = m.ValueID()
	default:
		return nil, fmt.Errorf("verif: bad root kind %q", rs.K)
	}
	if n.Root == atree.SlabIDUndefined {
		return nil, e.viol("new root container has an undefined slab id")
	}
	e.Roots = append(e.Roots, n)
	return n, nil
}

func (e *Engine) digesterFor(n *Node) atree.DigesterBuilder {
	if n.Dig != nil {
		return newGenDigesterBuilder(n.Dig)
	}
	return atree.NewDefaultDigesterBuilder()
}

// ---------------------------------------------------------------- node enumeration and handles

func (e *Engine) allNodes() []*Node {
	var out []*Node
	var rec func(n *Node)
	rec = func(n *Node) {
		out = append(out, n)
		for _, c := range n.Children() {
			rec(c)
		}
	}
	for _, r := range e.Roots {
		rec(r)
	}
	return out
}

func (e *Engine) pick(t uint, wantMap, wantArr bool) *Node {
	var cands []*Node
	for _, n := range e.allNodes() {
		if (n.IsMap && wantMap) || (!n.IsMap && wantArr) {
			cands = append(cands, n)
		}
	}
	if len(cands) == 0 {
		return nil
	}
	return cands[int(t%uint(len(cands)))]
}

func retire(n *Node) {
	n.HA, n.HM = nil, nil
	n.Gen++
	for _, c := range n.Children() {
		retire(c)
	}
}

func (e *Engine) retireAll() {
	for _, r := range e.Roots {
		retire(r)
	}
}

// slotOf finds where child sits in parent: index (arrays) or key (maps).
func slotOf(parent, child *Node) (int, string, bool) {
	if parent.IsMap {
		for _, k := range parent.SortedKeys() {
			if nodeOf(parent.Ents[k].V) == child {
				return 0, k, true
			}
		}
		return 0, "", false
	}
	for i, el := range parent.Elems {
		if nodeOf(el) == child {
			return i, "", true
		}
	}
	return 0, "", false
}

func unwrapSome(v atree.Value) atree.Value {
	for {
		s, ok := v.(Some)
		if !ok {
			return v
		}
		v = s.V
	}
}

func (e *Engine) setHandle(n *Node, v atree.Value) error {
	v = unwrapSome(v)
	if n.IsMap {
		m, ok := v.(*atree.OrderedMap)
		if !ok {
			return e.viol("expected a map for node #%d, library returned %T", n.ID, v)
		}
		n.HM = m
	} else {
		a, ok := v.(*atree.Array)
		if !ok {
			return e.viol("expected an array for node #%d, library returned %T", n.ID, v)
		}
		n.HA = a
	}
	n.HandleStep = e.step
	n.Gen++
	if n.Parent != nil {
		n.ParentShape = n.Parent.Shape
		n.HandleParentGen = n.Parent.Gen
	}
	return nil
}

// acquire makes sure n has a designated handle (R1), obtaining it through the
// parent chain (lookup) or, for roots, by reopening with the root identifier.
func (e *Engine) acquire(n *Node) error {
	if n.HasHandle() && n.Parent == nil && n.Former != nil && n.Former.Gen != n.HandleParentGen {
		// R1: the stale handle of a detached container still calls back into the handle object of its
		// former parent; once that object has been replaced (re-acquired) the old handle is dead too
		retire(n)
		e.Stats.label("stale_handle_dropped_with_parent_handle")
	}
	if n.HasHandle() {
		return nil
	}
	if n.Parent == nil {
		if n.IsMap {
			m, err := atree.NewMapWithRootID(e.St, n.Root, e.digesterFor(n))
			if err != nil {
				return e.viol("reopening map root %s failed: %v", n.Root, err)
			}
			n.HM = m
		} else {
			a, err := atree.NewArrayWithRootID(e.St, n.Root)
			if err != nil {
				return e.viol("reopening array root %s failed: %v", n.Root, err)
			}
			n.HA = a
		}
		n.HandleStep = e.step
		n.Gen++
		if n.Former != nil {
			// a handle obtained by reopening has no callback into the former parent: never stale
			n.HandleParentGen = n.Former.Gen
		}
		return nil
	}
	p := n.Parent
	if err := e.acquire(p); err != nil {
		return err
	}
	idx, key, ok := slotOf(p, n)
	if !ok {
		panic("verif: child not found in parent model")
	}
	var v atree.Value
	var err error
	if p.IsMap {
		v, err = p.HM.Get(e.CB.Compare, e.CB.HashInput, keyValue(p.Ents[key].K))
	} else {
		v, err = p.HA.Get(uint64(idx))
	}
	if err != nil {
		return e.viol("lookup of nested container #%d through its parent failed: %v", n.ID, err)
	}
	return e.setHandle(n, v)
}

// reacquire retires n's handle (and its subtree's) and obtains a fresh one.
func (e *Engine) reacquire(n *Node, mode int) error {
	if n.Parent == nil {
		// A second handle object for a live root would violate R1 unless the old one is dropped.
		retire(n)
		return e.acquire(n)
	}
	retire(n)
	if mode == 2 {
		return e.acquireByIteration(n.Parent)
	}
	return e.acquire(n)
}

// acquireByIteration obtains handles for all nested containers of p from p's mutable iterator.
func (e *Engine) acquireByIteration(p *Node) error {
	if err := e.acquire(p); err != nil {
		return err
	}
	for _, c := range p.Children() {
		retire(c)
	}
	if p.IsMap {
		var ferr error
		yielded := 0
		err := p.HM.Iterate(e.CB.Compare, e.CB.HashInput, func(k, v atree.Value) (bool, error) {
			if yielded++; yielded > len(p.Ents) {
				ferr = fmt.Errorf("mutable iteration yields more than the %d entries of the map", len(p.Ents))
				return false, nil
			}
			ck, err := canonOfValue(k)
			if err != nil {
				ferr = err
				return false, nil
			}
			ent, ok := p.Ents[ck]
			if !ok {
				ferr = fmt.Errorf("mutable iteration yields key %s absent from the model", short(ck))
				return false, nil
			}
			if c := nodeOf(ent.V); c != nil {
				if err := e.setHandle(c, v); err != nil {
					ferr = err
					return false, nil
				}
			}
			return true, nil
		})
		if err != nil {
			return e.viol("mutable map iteration failed: %v", err)
		}
		if ferr != nil {
			return e.viol("%v", ferr)
		}
		return nil
	}
	i := 0
	var ferr error
	err := p.HA.Iterate(func(v atree.Value) (bool, error) {
		if i >= len(p.Elems) {
			ferr = fmt.Errorf("mutable iteration yields more than %d elements", len(p.Elems))
			return false, nil
		}
		if c := nodeOf(p.Elems[i]); c != nil {
			if err := e.setHandle(c, v); err != nil {
				ferr = err
				return false, nil
			}
		}
		i++
		return true, nil
	})
	if err != nil {
		return e.viol("mutable array iteration failed: %v", err)
	}
	if ferr != nil {
		return e.viol("%v", ferr)
	}
	return nil
}

// handle returns n's designated handle, honouring the acquisition mode of the op.
func (e *Engine) handle(n *Node, mode int) error {
	if mode != 0 && n.HasHandle() {
		return e.reacquire(n, mode)
	}
	if mode == 2 && n.Parent != nil {
		return e.acquireByIteration(n.Parent)
	}
	return e.acquire(n)
}

// ---------------------------------------------------------------- values

// strLen turns a size class into a string length, relative to limit (an encoded-size limit).
func (e *Engine) strLen(z, d int, n uint64, limit uint32) int {
	lenFor := func(size int) int { // string length whose encoded size is exactly size
		for _, h := range []int{1, 2, 3, 5} {
			l := size - h
			if l >= 0 && int(uintSize(uint64(l))) == h {
				return l
			}
		}
		return size
	}
	switch z {
	case 0:
		return int(n % 9)
	case 1:
		return int(limit)/8 + d
	case 2:
		return int(limit)/2 + d
	case 3:
		return lenFor(int(limit) - 1)
	case 4:
		return lenFor(int(limit))
	case 5:
		return lenFor(int(limit) + 1)
	case 6:
		return int(e.Cfg.Slab)*2 + d
	case 7: // around a quarter slab: pairs of these sit at the split / merge edges
		return int(e.Cfg.Slab)/4 + d
	case 8: // uniform in [0, limit): arbitrary granularity for lend / merge decisions
		if limit < 2 {
			return 0
		}
		return int(mix64(n*31+7) % uint64(limit-1))
	}
	return int(n % 9)
}

func strOf(n uint64, l int) string {
	if l <= 0 {
		return ""
	}
	b := make([]byte, l)
	p := strconv.FormatUint(n, 36) + "_"
	for i := range b {
		if i < len(p) {
			b[i] = p[i]
		} else {
			b[i] = 'a' + byte((n+uint64(i))%26)
		}
	}
	return string(b)
}

// mk creates the library value and the model value described by vd.
// limit is the encoded-size limit of the slot the value goes into.
func (e *Engine) mk(vd *VD, addr atree.Address, limit uint32, depth int) (atree.Value, MV, error) {
	if vd == nil {
		return U64(0), U64(0), nil
	}
	switch vd.K {
	case "u":
		return U64(vd.N), U64(vd.N), nil
	case "s":
		s := Str{strOf(vd.N, e.strLen(vd.Z, vd.D, vd.N, limit))}
		return s, s, nil
	case "some":
		w := vd.W
		if w < 1 {
			w = 1
		}
		inLimit := limit
		if p := somePrefixSize(uint64(w)); inLimit > p {
			inLimit -= p
		} else {
			inLimit = 0
		}
		v, m, err := e.mk(vd.E, addr, inLimit, depth)
		if err != nil {
			return nil, nil, err
		}
		for i := 0; i < w; i++ {
			v = Some{V: v}
			m = MSome{V: m}
		}
		return v, m, nil
	case "arr":
		// the type information of one array in seven says "composite" (the library puts no restriction on it):
		// it then shares its encoded type with composite maps of the same number in the slab's type table
		n := &Node{ID: e.nextNode, Addr: addr, TI: TI{N: e.typeNum(vd.N, 8), Comp: vd.N%7 == 3}}
		e.nextNode++
		a, err := atree.NewArray(e.St, addr, n.TI)
		if err != nil {
			return nil, nil, e.viol("NewArray failed: %v", err)
		}
		n.HA, n.VID, n.HandleStep = a, a.ValueID(), e.step
		for i := 0; i < vd.L; i++ {
			ev := e.elemVD(vd.E, uint64(i), depth)
			v, m, err := e.mk(ev, addr, e.MaxArrElem, depth+1)
			if err != nil {
				return nil, nil, err
			}
			if err := a.Append(v); err != nil {
				return nil, nil, e.viol("Append while building a nested array failed: %v", err)
			}
			n.Elems = append(n.Elems, m)
			if c := nodeOf(m); c != nil {
				c.Parent = n
			}
		}
		e.Stats.label("nested_container_created")
		return a, n, nil
	case "barr":
		// an array built with the bulk constructor from a stream of mixed sizes (then used like any other value)
		n := &Node{ID: e.nextNode, Addr: addr, TI: TI{N: e.typeNum(vd.N, 8)}}
		e.nextNode++
		i := 0
		cls := []int{0, 8, 3, 4, 8, 7, 8, 2, 8, 8, 8, 3}
		var ferr error
		a, err := atree.NewArrayFromBatchData(e.St, addr, n.TI, func() (atree.Value, error) {
			if i >= vd.L || ferr != nil {
				return nil, nil
			}
			h := mix64(vd.N*977 + uint64(i))
			ev := &VD{K: "s", Z: cls[h%uint64(len(cls))], D: int(h>>8%7) - 3, N: vd.N*1000 + uint64(i)}
			if i >= vd.L-1-int(vd.N%3) && vd.N%2 == 0 {
				ev = &VD{K: "u", N: uint64(i)}
			}
			v, m, err := e.mk(ev, addr, e.MaxArrElem, depth+1)
			if err != nil {
				ferr = err
				return nil, nil
			}
			n.Elems = append(n.Elems, m)
			i++
			return v, nil
		})
		if ferr != nil {
			return nil, nil, ferr
		}
		if err != nil {
			return nil, nil, e.viol("NewArrayFromBatchData failed on a valid stream of %d elements: %v", vd.L, err)
		}
		n.HA, n.VID, n.HandleStep = a, a.ValueID(), e.step
		e.Stats.label("nested_container_created")
		e.Stats.label("bulk_built_array")
		return a, n, nil
	case "bmap":
		// a map that is built at the TEMPORARY address and then transferred into the owner's account with the bulk
		// constructor, keeping the seed and order of the temporary original (how Cadence moves a dictionary into storage):
		// the seed of a temporary map reaches the registers this way
		if e.excludeF4() {
			c := *vd
			c.K = "arr"
			c.E = nil
			e.Stats.Add("excluded_known_F4", 1)
			return e.mk(&c, addr, limit, depth)
		}
		ti := TI{N: e.typeNum(vd.N, 8)}
		src, err := atree.NewMap(e.St, atree.AddressUndefined, atree.NewDefaultDigesterBuilder(), ti)
		if err != nil {
			return nil, nil, e.viol("NewMap at the temporary address failed: %v", err)
		}
		n := &Node{ID: e.nextNode, Addr: addr, IsMap: true, TI: ti, Ents: map[string]*Ent{}, Ins: map[string]int{}}
		e.nextNode++
		type kvm struct {
			k, v MV
		}
		want := map[string]kvm{}
		for i := 0; i < vd.L; i++ {
			km := e.key(vd.N*7 + uint64(i))
			ck := canonKey(km)
			if _, dup := want[ck]; dup {
				continue
			}
			vm := U64(vd.N + uint64(i))
			if old, err := src.Set(e.CB.Compare, e.CB.HashInput, keyValue(km), vm); err != nil || old != nil {
				return nil, nil, e.viol("Set on a temporary map failed: %v (previous %v)", err, old)
			}
			want[ck] = kvm{km, vm}
		}
		it, err := src.ReadOnlyIterator()
		if err != nil {
			return nil, nil, e.viol("iterator of a temporary map failed: %v", err)
		}
		m, err := atree.NewMapFromBatchData(e.St, addr, atree.NewDefaultDigesterBuilder(), ti, e.CB.Compare, e.CB.HashInput, src.Seed(),
			func() (atree.Value, atree.Value, error) {
				k, v, err := it.Next()
				if err != nil || k == nil {
					return nil, nil, err
				}
				ck, err := canonOfValue(k)
				if err != nil {
					return nil, nil, err
				}
				w, ok := want[ck]
				if !ok {
					return nil, nil, fmt.Errorf("temporary map yields unknown key %s", ck)
				}
				n.Ents[ck] = &Ent{K: w.k, V: w.v}
				n.stamp++
				n.Ins[ck] = n.stamp
				// fresh values for the copy (keys that are too large for inline storage are copied, too)
				return keyValue(w.k), v, nil
			})
		if err != nil {
			return nil, nil, e.viol("NewMapFromBatchData from a temporary map of %d entries failed: %v", len(want), err)
		}
		if m.Seed() != src.Seed() {
			return nil, nil, e.viol("bulk-built map has seed %d, its source %d", m.Seed(), src.Seed())
		}
		// dispose of the temporary original
		if err := e.dispose(atree.SlabIDStorable(src.SlabID())); err != nil {
			return nil, nil, err
		}
		n.HM, n.VID, n.HandleStep = m, m.ValueID(), e.step
		e.Stats.label("nested_container_created")
		e.Stats.label("map_transferred_from_temp_address")
		return m, n, nil
	case "map", "cmap":
		// (a composite map whose field names collide under the colliding hash-input provider is not stored in the shared
		// compact form: it carries its own extra data like a plain map and counts as one)
		if (vd.K == "map" || (vd.K == "cmap" && e.Cfg.HipGroups > 0)) && e.excludeF4() {
			// known finding F4 (DESIGN.md 6): >255 inlined containers with distinct extra data in one
			// slab make the slab unencodable.  Excluded by construction: an array takes the map's place.
			c := *vd
			c.K = "arr"
			e.Stats.Add("excluded_known_F4", 1)
			return e.mk(&c, addr, limit, depth)
		}
		n := &Node{ID: e.nextNode, Addr: addr, IsMap: true, TI: TI{N: e.typeNum(vd.N, 4), Comp: vd.K == "cmap"}, Ents: map[string]*Ent{}, Ins: map[string]int{}}
		e.nextNode++
		m, err := atree.NewMap(e.St, addr, atree.NewDefaultDigesterBuilder(), n.TI)
		if err != nil {
			return nil, nil, e.viol("NewMap failed: %v", err)
		}
		n.HM, n.VID, n.HandleStep = m, m.ValueID(), e.step
		for i := 0; i < vd.L; i++ {
			var km MV
			if vd.K == "cmap" {
				km = Str{"f" + strconv.Itoa(i)} // composite: fixed field set
				if i == 1 && vd.N%11 == 5 {
					// one composite in eleven has a field name too long to be stored inline: its key is a slab
					// reference, which the shared compact form cannot hold (the map is then encoded like a plain one)
					km = Str{strOf(vd.N, int(e.MaxMapKey)+3)}
				}
			} else {
				km = e.key(vd.N*7 + uint64(i))
			}
			ck := canonKey(km)
			if _, dup := n.Ents[ck]; dup {
				continue
			}
			ev := e.elemVD(vd.E, uint64(i), depth)
			if vd.K == "cmap" && vd.L > 7 {
				ev = &VD{K: "u", N: uint64(i) % 24} // many fields: one-byte values, so that the composite can still be inlined
			}
			kv := keyValue(km)
			ks, err := kv.Storable(nil, addr, ^uint32(0))
			if err != nil {
				return nil, nil, err
			}
			v, mv, err := e.mk(ev, addr, e.mapValueLimit(ks.ByteSize()), depth+1)
			if err != nil {
				return nil, nil, err
			}
			old, err := m.Set(e.CB.Compare, e.CB.HashInput, kv, v)
			if err != nil {
				return nil, nil, e.viol("Set while building a nested map failed: %v", err)
			}
			if old != nil {
				return nil, nil, e.viol("Set of a new key while building a nested map returned a previous value")
			}
			n.Ents[ck] = &Ent{K: km, V: mv}
			n.stamp++
			n.Ins[ck] = n.stamp
			if c := nodeOf(mv); c != nil {
				c.Parent = n
			}
		}
		e.Stats.label("nested_container_created")
		if vd.K == "cmap" {
			e.Stats.label("composite_map")
		}
		return m, n, nil
	}
	return nil, nil, fmt.Errorf("verif: bad value kind %q", vd.K)
}

// f4Active reports whether this case could reach known finding F4 (more than 256 inlined containers with distinct
// extra data in one slab): only slabs of at least 3784 bytes can hold 257 inlined maps (22 bytes each at least) ...
func (e *Engine) f4Active() bool {
	// ... or, at any slab size, an external collision group (which has no size limit) must hold them
	collisions := e.Cfg.HipGroups > 0
	for _, r := range e.Cfg.Roots {
		collisions = collisions || r.Dig != nil
	}
	for _, r := range e.Roots {
		collisions = collisions || r.Dig != nil
	}
	return !e.Cfg.AllowF4 && (e.Cfg.Slab >= 3700 || collisions)
}

// excludeF4 reports whether creating one more nested plain map (each has its own extra data: its seed) has to be
// avoided.  In cases where F4 is reachable the kinds of extra data are kept far below 256 by construction: at most 60
// plain maps, 16 kinds of arrays and 56 kinds of composite maps (see typeNum), leaving room for every later type change.
func (e *Engine) excludeF4() bool {
	if !e.f4Active() {
		return false
	}
	e.plainMaps++
	return e.plainMaps > 60
}

// typeNum reduces a generated type number: 30 types normally (type tables with more than 24 entries), mod kinds when F4 is reachable.
func (e *Engine) typeNum(n uint64, kinds uint64) uint64 {
	if e.f4Active() {
		return n % kinds
	}
	if n%13 == 7 {
		// type numbers at the boundaries of the CBOR integer widths (the type tables compare and sort ENCODED type information)
		big := []uint64{23, 24, 255, 256, 65535, 65536, 1<<32 - 1, 1 << 32, 1<<64 - 1}
		return big[n/13%uint64(len(big))]
	}
	// 30 type numbers: a bulk append of >= 56 nested maps at slab sizes from 1024 upwards puts more than 25 type
	// informations that are each used twice into one slab (a shared type table with more than 24 / 25 entries)
	return n % 30
}

// elemVD derives the i-th element recipe of a container being built.
func (e *Engine) elemVD(tpl *VD, i uint64, depth int) *VD {
	if tpl == nil {
		return &VD{K: "u", N: i}
	}
	c := *tpl
	c.N = tpl.N + i*1000003
	if depth >= 3 && (c.K == "arr" || c.K == "map" || c.K == "cmap" || c.K == "barr" || c.K == "bmap") {
		return &VD{K: "u", N: c.N}
	}
	return &c
}

func (e *Engine) mapValueLimit(keySize uint32) uint32 {
	if keySize > e.MaxMapKey {
		keySize = atree.SlabIDStorable{}.ByteSize()
	}
	if e.MaxMapElem < keySize+1 {
		return 0
	}
	return e.MaxMapElem - keySize - 1
}

// key returns the idx-th key of the key universe (deterministic, distinct per idx).
func (e *Engine) key(idx uint64) MV {
	if k, ok := e.keyCache[idx]; ok {
		return k
	}
	var k MV
	switch idx % 8 {
	case 0, 1, 2:
		k = U64(idx * 0x9E3779B97F4A7C15) // all widths
	case 3:
		k = U64(idx)
	case 4:
		k = Str{strOf(idx, 4+int(idx%23))}
	case 5:
		k = MSome{V: U64(idx)}
	case 6:
		// around the key limit: limit-1, limit, limit+1 (the last is externalised)
		z := 3 + int((idx/8)%3)
		l := e.strLen(z, 0, idx, e.MaxMapKey)
		if l < 14 {
			l = 14
		}
		k = Str{strOf(idx, l)}
	default:
		k = MSome{V: Str{strOf(idx, 3+int(idx%11))}}
	}
	e.keyCache[idx] = k
	return k
}

// ---------------------------------------------------------------- disposal (R6)

// dispose deep-removes a value handed back by the library, as cmd/smoke and Cadence do.
func (e *Engine) dispose(s atree.Storable) error {
	if s == nil {
		return nil
	}
	v, err := s.StoredValue(e.St)
	if err != nil {
		return e.viol("materialising a handed-back value failed: %v", err)
	}
	switch c := unwrapSome(v).(type) {
	case *atree.Array:
		var ferr error
		err := c.PopIterate(func(s atree.Storable) {
			if err := e.dispose(s); err != nil && ferr == nil {
				ferr = err
			}
		})
		if err != nil {
			return e.viol("PopIterate while disposing failed: %v", err)
		}
		if ferr != nil {
			return ferr
		}
	case *atree.OrderedMap:
		var ferr error
		err := c.PopIterate(func(k, v atree.Storable) {
			if err := e.dispose(k); err != nil && ferr == nil {
				ferr = err
			}
			if err := e.dispose(v); err != nil && ferr == nil {
				ferr = err
			}
		})
		if err != nil {
			return e.viol("PopIterate while disposing failed: %v", err)
		}
		if ferr != nil {
			return ferr
		}
	}
	if id, ok := unwrapStorable(s).(atree.SlabIDStorable); ok {
		if err := e.St.Remove(atree.SlabID(id)); err != nil {
			return e.viol("removing slab %s failed: %v", atree.SlabID(id), err)
		}
	}
	return nil
}

func unwrapStorable(s atree.Storable) atree.Storable {
	for {
		w, ok := s.(atree.WrapperStorable)
		if !ok {
			return s
		}
		s = w.UnwrapAtreeStorable()
	}
}

// handBack processes a value handed back by Remove/Set: compares it with the
// model value it must equal, then disposes of it or keeps it as a detached root.
func (e *Engine) handBack(s atree.Storable, m MV, keep bool, what string) error {
	return e.handBack2(s, m, keep, false, what)
}

// handBack2: popped=true for elements passed to a PopIterate callback (they may be
// inlined slabs, which by contract are not stored anywhere; they are never kept).
func (e *Engine) handBack2(s atree.Storable, m MV, keep bool, popped bool, what string) error {
	if s == nil {
		return e.viol("%s: library handed back nil, model has %s", what, describeMV(m))
	}
	if e.Or.BlindDispose && nodeOf(m) == nil && mix64(uint64(e.step)*31+uint64(len(what)))%2 == 0 {
		// a client that knows the handed-back value is a plain large value removes its slab by identifier
		// without loading it (C09)
		if id, ok := unwrapStorable(s).(atree.SlabIDStorable); ok {
			e.Stats.label("removed_without_loading")
			if err := e.St.Remove(atree.SlabID(id)); err != nil {
				return e.viol("removing slab %s failed: %v", atree.SlabID(id), err)
			}
			return nil
		}
	}
	v, err := s.StoredValue(e.St)
	if err != nil {
		return e.viol("%s: materialising the handed-back value failed: %v", what, err)
	}
	if err := cmpValue(v, m, what, e.co()); err != nil {
		return e.viol("%v", err)
	}
	if e.RecordResults {
		e.Results = append(e.Results, what+"="+modelSummary(m, 2))
	}
	n := nodeOf(m)
	if n != nil && popped {
		retire(n)
		return e.dispose(s)
	}
	if n != nil {
		// a container handed back must be a separate slab now (never an inlined one)
		id, ok := unwrapStorable(s).(atree.SlabIDStorable)
		if !ok {
			return e.viol("%s: handed-back container is not a slab reference but %T", what, unwrapStorable(s))
		}
		if keep {
			n.Former = n.Parent
			n.Parent = nil
			n.Detached = true
			n.Root = atree.SlabID(id)
			if vid := slabIDToValueID(n.Root); vid != n.VID {
				return e.viol("%s: detached container changed identity: value id %s, was %s", what, vid, n.VID)
			}
			e.Roots = append(e.Roots, n)
			e.Stats.label("detached_kept")
			if n.HasHandle() {
				e.Stats.label("detached_with_live_handle")
			}
			return nil
		}
		retire(n)
	}
	return e.dispose(s)
}

func slabIDToValueID(id atree.SlabID) atree.ValueID {
	var v atree.ValueID
	a := id.Address()
	x := id.Index()
	copy(v[:], a[:])
	copy(v[8:], x[:])
	return v
}

// ---------------------------------------------------------------- errors

func isUser(err error) bool  { var u *atree.UserError; return errors.As(err, &u) }
func isFatal(err error) bool { var f *atree.FatalError; return errors.As(err, &f) }
func isExternal(err error) bool {
	var x *atree.ExternalError
	return errors.As(err, &x)
}

func (e *Engine) expectIndexOOB(err error, what string) error {
	var oob *atree.IndexOutOfBoundsError
	if err == nil {
		return e.viol("%s: out-of-range request succeeded", what)
	}
	if !errors.As(err, &oob) || !isUser(err) || isFatal(err) {
		return e.viol("%s: expected a user IndexOutOfBoundsError, got %T: %v", what, err, err)
	}
	return nil
}

func (e *Engine) expectKeyNotFound(err error, what string) error {
	var knf *atree.KeyNotFoundError
	if err == nil {
		return e.viol("%s: request for an absent key succeeded", what)
	}
	if !errors.As(err, &knf) || !isUser(err) || isFatal(err) {
		return e.viol("%s: expected a user KeyNotFoundError, got %T: %v", what, err, err)
	}
	return nil
}
