package harness

import "pgregory.net/rapid"

// engprops.go: properties decided by the container-tree engine with different
// generator weights and oracle sets.

type engPropSpec struct {
	ID   string
	G    func() *GenCfg
	Or   func(cs *Case) Oracles
	Post func(e *Engine, cs *Case) error // after Run
	Non  func(s *CaseStats) bool
	Rule string
}

func registerEngine(sp engPropSpec) {
	g := sp.G()
	register(&PropDef{
		ID:  sp.ID,
		New: func() any { return &Case{} },
		Gen: func(t *rapid.T) any { return g.genCase(t, sp.ID) },
		Run: func(c any) (*CaseStats, error) {
			cs := c.(*Case)
			e, err := NewEngine(cs.Cfg, sp.Or(cs))
			if err != nil {
				return nil, err
			}
			if err := e.Run(cs.Ops); err != nil {
				return e.Stats, err
			}
			if sp.Post != nil {
				if err := sp.Post(e, cs); err != nil {
					return e.Stats, err
				}
			}
			return e.Stats, nil
		},
		Nontrivial: sp.Non,
		Rule:       sp.Rule,
		Slab:       caseSlab,
	})
}

var valAll = map[string]int{"u": 10, "s0": 4, "s1": 4, "s2": 3, "s3": 2, "s4": 2, "s5": 2, "s6": 1, "s7": 3,
	"some": 3, "arr": 3, "map": 2, "cmap": 1, "barr": 2, "bmap": 1}
var valNoComposite = map[string]int{"u": 10, "s0": 4, "s1": 4, "s2": 3, "s3": 2, "s4": 2, "s5": 2, "s6": 1, "s7": 3,
	"some": 3, "arr": 3, "map": 3}
var valNested = map[string]int{"u": 6, "s0": 2, "s1": 3, "s2": 2, "s3": 1, "s4": 1, "s5": 1, "s7": 2,
	"some": 4, "arr": 8, "map": 6, "cmap": 2, "barr": 2, "bmap": 1}

func scale(g *GenCfg) *GenCfg {
	if g.NondetPct == 0 {
		g.NondetPct = 30 // both commit flavours everywhere
	}
	if thorough() {
		g.Slabs = allSlabs
		g.SlabAny = true
		g.MaxOps = g.MaxOps * 5 / 2
		g.MaxBulk = g.MaxBulk * 8
		if g.MaxBulk > 640 {
			g.MaxBulk = 640 // larger bursts make single cases take minutes (every burst is checked up to 48 times from inside)
		}
	}
	return g
}

func endCommitFresh(e *Engine, _ *Case) error {
	if err := e.Commit(0); err != nil {
		return err
	}
	return e.checkFresh(e.L, e.Roots, "end of history")
}

func init() {
	// ------------------------------------------------------------------ C02
	registerEngine(engPropSpec{
		ID: "C02",
		G: func() *GenCfg {
			return scale(&GenCfg{
				Slabs: quickSlabs, MinOps: 1, MaxOps: 60,
				W: map[string]int{"mset": 22, "mget": 6, "mhas": 4, "mrem": 14, "mpop": 2, "msetN": 7, "mremN": 5, "styp": 2, "mgrow": 2, "mupdN": 3,
					"mbadget": 3, "mbadrem": 3, "mbadhas": 2, "reget": 2, "reopen": 2, "commit": 1, "evict": 1, "mshrink": 2,
					"app": 2, "rem": 1},
				Roots:   [][]RootSpec{{{K: "map", Addr: 1, TI: 2}}, {{K: "map", Addr: 1, TI: 2}}, {{K: "cmap", Addr: 1, TI: 3}}, {{K: "map", Addr: 0, TI: 2}}},
				MaxBulk: 100, Keys: []int{12, 64, 400},
				ValW: valAll, MaxDepth: 2, MaxElems: 5, AcqW: [3]int{8, 1, 1},
				DigRootsPct:  25, // "any hash distribution": colliding digests too (limit stays 255)
				HipGroupsPct: 25, // ... and genuine first-level collisions of the default digester
				Keep:         15, // some handed-back containers are kept and used further through their old handles
			})
		},
		Or:   func(*Case) Oracles { return Oracles{CmpEvery: 1, CheckHandles: true} },
		Post: endCommitFresh,
		Non: func(s *CaseStats) bool {
			return s.Has("multi_slab") && s.Has("shrink_or_overwrite_in_multi_slab")
		},
		Rule: "history reaches a multi-slab map and then removes/overwrites entries in it; distinct = distinct op lists",
	})

	// ------------------------------------------------------------------ shared generator for structural properties
	structG := func(keep int, val map[string]int) func() *GenCfg {
		return func() *GenCfg {
			return scale(&GenCfg{
				Slabs: quickSlabs, MinOps: 1, MaxOps: 50,
				W: map[string]int{
					"app": 8, "ins": 8, "set": 8, "rem": 9, "get": 2, "pop": 2, "appN": 5, "remN": 5,
					"mset": 14, "mget": 2, "mrem": 9, "mpop": 2, "msetN": 5, "mremN": 4, "styp": 2,
					"reget": 3, "reopen": 2, "commit": 2, "evict": 1, "badget": 1, "mbadget": 1, "grow": 1, "mgrow": 1, "setN": 3, "mupdN": 2, "shrink": 1, "mshrink": 1,
				},
				Roots: [][]RootSpec{
					{{K: "arr", Addr: 1, TI: 1}},
					{{K: "map", Addr: 1, TI: 2}},
					{{K: "arr", Addr: 1, TI: 1}, {K: "map", Addr: 2, TI: 2}},
					{{K: "map", Addr: 1, TI: 2}, {K: "arr", Addr: 1, TI: 4}},
				},
				MaxBulk: 128, Keys: []int{12, 64, 300},
				ValW: val, MaxDepth: 3, MaxElems: 5, AcqW: [3]int{7, 2, 1}, Keep: keep,
				DigRootsPct:  30, // root maps with colliding digests: inline / external collision groups
				HipGroupsPct: 20,
			})
		}
	}
	multi := func(s *CaseStats) bool { return s.Has("multi_slab") }

	// ------------------------------------------------------------------ C05
	registerEngine(engPropSpec{
		ID: "C05", G: structG(0, valAll),
		Or: func(*Case) Oracles { return Oracles{CmpEvery: 8, Tree: true, Verify: true} },
		Non: func(s *CaseStats) bool {
			return multi(s) && (s.Has("slab_near_band_edge") || s.Has("inlined_child_near_limit"))
		},
		Rule: "multi-slab tree with a slab within 16 bytes of a band edge or an inlined child within 2 bytes of its limit",
	})
	// ------------------------------------------------------------------ C06
	registerEngine(engPropSpec{
		ID: "C06", G: structG(0, valAll),
		Or:   func(*Case) Oracles { return Oracles{CmpEvery: 16, Sizes: true, VerifySer: true} },
		Post: endCommitFresh,
		Non: func(s *CaseStats) bool {
			return s.Has("slab_with_inlined_child") && s.Has("last_leaf_without_link") && s.Has("root_split")
		},
		Rule: "slab set includes a slab with an inlined child, a non-root data slab without sibling link, and a root that was split",
	})
	// ------------------------------------------------------------------ C07
	registerEngine(engPropSpec{
		ID: "C07", G: structG(0, valNested),
		Or: func(*Case) Oracles {
			return Oracles{CmpEvery: 16, RoundTrip: true, VerifySer: true, FreshAtCommit: true}
		},
		Post: endCommitFresh,
		Non: func(s *CaseStats) bool {
			return s.Has("slab_with_inlined_child") && s.Extra["registers_checked"] >= 3 && (s.Has("multi_slab") || s.Has("standalone_child") || s.Has("large_value_slab"))
		},
		Rule: ">=3 committed registers checked, at least one slab with inlined children and one of: multi-slab tree, standalone child, large-value slab",
	})
	// ------------------------------------------------------------------ C09
	registerEngine(engPropSpec{
		ID: "C09",
		G: func() *GenCfg {
			g := structG(0, valAll)()
			// temporary-address containers next to owned ones, both commit flavours
			g.Roots = append(g.Roots,
				[]RootSpec{{K: "arr", Addr: 1, TI: 1}, {K: "map", Addr: 0, TI: 2}},
				[]RootSpec{{K: "map", Addr: 2, TI: 2}, {K: "arr", Addr: 0, TI: 1}, {K: "arr", Addr: 2, TI: 3}})
			g.NondetPct = 40
			g.W["commit"] = 5
			g.W["evict"] = 3
			g.Keep = 15 // kept values are disposed of later ("drop"), some of them by identifier without loading
			g.W["drop"] = 6
			return g
		},
		Or: func(*Case) Oracles {
			return Oracles{CmpEvery: 16, Health: true, BlindDispose: true, QuietAfterEvict: true}
		},
		Post: func(e *Engine, cs *Case) error { return e.emptyEverything() },
		Non: func(s *CaseStats) bool {
			n := 0
			for _, l := range []string{"inline_to_standalone", "standalone_to_inline", "large_value_slab", "root_promotion", "pop", "external_collision_group", "bulk_remove"} {
				if s.Has(l) {
					n++
				}
			}
			return n >= 2
		},
		Rule: "history crossed >=2 of: inline->standalone, standalone->inline, large value slab, root promotion, bulk pop, bulk remove, external collision group",
	})
	// ------------------------------------------------------------------ C10
	registerEngine(engPropSpec{
		ID: "C10",
		G: func() *GenCfg {
			g := structG(0, valNested)()
			g.W["reget"] = 5
			g.W["reset"], g.W["mreset"] = 4, 3
			g.AcqW = [3]int{6, 2, 2}
			g.MaxElems = 6
			return g
		},
		Or: func(*Case) Oracles {
			return Oracles{CmpEvery: 1, CheckHandles: true, Inline: true, Verify: true, FreshAtCommit: true}
		},
		Post: endCommitFresh,
		Non: func(s *CaseStats) bool {
			return s.Has("old_handle_after_parent_restructure") && (s.Has("inline_to_standalone") || s.Has("standalone_to_inline")) && s.Has("op_on_depth>=2")
		},
		Rule: "a handle older than a restructuring of its parent is used, an inline<->standalone transition occurs, and a container at depth >=2 is mutated",
	})
}
