package harness

import (
	"os"
	"testing"
)

func TestC01(t *testing.T) { runRapid(t, "C01") }
func TestC02(t *testing.T) { runRapid(t, "C02") }
func TestC13(t *testing.T) { runRapid(t, "C13") }
func TestC04(t *testing.T) { runRapid(t, "C04") }
func TestC08(t *testing.T) { runRapid(t, "C08") }
func TestC03(t *testing.T) { runRapid(t, "C03") }
func TestC11(t *testing.T) { runRapid(t, "C11") }
func TestC12(t *testing.T) { runRapid(t, "C12") }
func TestC05(t *testing.T) { runRapid(t, "C05") }
func TestC06(t *testing.T) { runRapid(t, "C06") }
func TestC07(t *testing.T) { runRapid(t, "C07") }
func TestC09(t *testing.T) { runRapid(t, "C09") }
func TestC10(t *testing.T) { runRapid(t, "C10") }

func TestReplay(t *testing.T) {
	p := os.Getenv("VERIF_REPLAY")
	if p == "" {
		t.Skip("VERIF_REPLAY not set")
	}
	runReplay(t, p)
}
