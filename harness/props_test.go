package harness

import (
	"os"
	"testing"
)

func TestC01(t *testing.T) { runRapid(t, "C01") }

func TestReplay(t *testing.T) {
	p := os.Getenv("VERIF_REPLAY")
	if p == "" {
		t.Skip("VERIF_REPLAY not set")
	}
	runReplay(t, p)
}
