package harness

import (
	"encoding/json"
	"os"
	"testing"
)

func TestC01(t *testing.T) { runRapid(t, "C01") }
func TestC02(t *testing.T) { runRapid(t, "C02") }
func TestC13(t *testing.T) { runRapid(t, "C13") }
func TestC16(t *testing.T) { runRapid(t, "C16") }
func TestC20(t *testing.T) { runRapid(t, "C20") }
func TestC17(t *testing.T) { runRapid(t, "C17") }
func TestC18(t *testing.T) { runRapid(t, "C18") }
func TestC14(t *testing.T) { runRapid(t, "C14") }
func TestC04(t *testing.T) { runRapid(t, "C04") }
func TestC08(t *testing.T) { runRapid(t, "C08") }
func TestC03(t *testing.T) { runRapid(t, "C03") }
func TestC11(t *testing.T) { runRapid(t, "C11") }
func TestC12(t *testing.T) { runRapid(t, "C12") }
func TestC05(t *testing.T) { runRapid(t, "C05") }
func TestC06(t *testing.T) { runRapid(t, "C06") }
func TestC07(t *testing.T) { runRapid(t, "C07") }
func TestC09(t *testing.T) { runRapid(t, "C09") }
func TestC10(t *testing.T) { runRapid(t, "C10") }

func TestReplay(t *testing.T) {
	p := os.Getenv("VERIF_REPLAY")
	if p == "" {
		t.Skip("VERIF_REPLAY not set")
	}
	runReplay(t, p)
}

func TestC15(t *testing.T) {
	if idx := os.Getenv("VERIF_SHARD_INDEX"); idx == "" || idx == "0" {
		maxLen := 4
		if thorough() {
			maxLen = 5
		}
		seqs, vis, err, failing := c15Exhaustive(maxLen)
		if err != nil {
			rp := replayPathFor("C15")
			_ = os.MkdirAll(ReplayDir(), 0o755)
			b, _ := json.MarshalIndent(map[string]any{"property": "C15", "failure": err.Error(), "case": failing}, "", " ")
			_ = os.WriteFile(rp, b, 0o644)
			t.Fatalf("property C15 violated: %v\nVERIF-REPLAY %s", err, rp)
		}
		st := newCaseStats()
		st.label("exhaustive_enumeration")
		st.Add("exhaustive_sequences", seqs)
		st.Add("exhaustive_max_len", maxLen)
		st.Add("distinct_model_states", len(vis.states))
		st.Add("distinct_state_op_pairs", len(vis.pairs))
		Emit("C15", map[string]any{"exhaustive": "all op sequences up to the given length over an 18-op alphabet", "max_len": maxLen}, 0, st, true, registry["C15"].Rule)
	}
	runRapid(t, "C15")
}

func TestC19(t *testing.T) { runRapid(t, "C19") }

// FuzzC19 is the coverage-guided variant of the C19 target (thorough tier).
func FuzzC19(f *testing.F) {
	for _, b := range loadCorpus() {
		f.Add(b)
	}
	f.Fuzz(func(t *testing.T, b []byte) {
		if len(b) > 1<<16 {
			return
		}
		if err := fuzzOne(b); err != nil {
			t.Fatalf("property C19 violated: %v", err)
		}
	})
}
