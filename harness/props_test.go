package harness

import (
	"encoding/json"
	"fmt"
	"os"
	"testing"

	"github.com/onflow/atree"
)

func TestC01(t *testing.T) { runRapid(t, "C01") }
func TestC02(t *testing.T) { runRapid(t, "C02") }
func TestC13(t *testing.T) { runRapid(t, "C13") }
func TestC16(t *testing.T) { runRapid(t, "C16") }
func TestC20(t *testing.T) { runRapid(t, "C20") }
func TestC17(t *testing.T) { runRapid(t, "C17") }
func TestC18(t *testing.T) { runRapid(t, "C18") }
func TestC14(t *testing.T) { runRapid(t, "C14") }
func TestC04(t *testing.T) { runRapid(t, "C04") }
func TestC08(t *testing.T) { runRapid(t, "C08") }
func TestC03(t *testing.T) { runRapid(t, "C03") }
func TestC11(t *testing.T) { runRapid(t, "C11") }
func TestC12(t *testing.T) { runRapid(t, "C12") }
func TestC06(t *testing.T) { runRapid(t, "C06") }
func TestC07(t *testing.T) { runRapid(t, "C07") }
func TestC09(t *testing.T) { runRapid(t, "C09") }
func TestC10(t *testing.T) { runRapid(t, "C10") }

func TestReplay(t *testing.T) {
	p := os.Getenv("VERIF_REPLAY")
	if p == "" {
		t.Skip("VERIF_REPLAY not set")
	}
	runReplay(t, p)
}

func TestC15(t *testing.T) {
	if idx := os.Getenv("VERIF_SHARD_INDEX"); idx == "" || idx == "0" {
		maxLen := 4
		if thorough() {
			maxLen = 5
		}
		seqs, vis, err, failing := c15Exhaustive(maxLen)
		if err != nil {
			rp := replayPathFor("C15")
			_ = os.MkdirAll(ReplayDir(), 0o755)
			b, _ := json.MarshalIndent(map[string]any{"property": "C15", "failure": err.Error(), "case": failing}, "", " ")
			_ = os.WriteFile(rp, b, 0o644)
			t.Fatalf("property C15 violated: %v\nVERIF-REPLAY %s", err, rp)
		}
		st := newCaseStats()
		st.label("exhaustive_enumeration")
		st.Add("exhaustive_sequences", seqs)
		st.Add("exhaustive_max_len", maxLen)
		st.Add("distinct_model_states", len(vis.states))
		st.Add("distinct_state_op_pairs", len(vis.pairs))
		Emit("C15", map[string]any{"exhaustive": "all op sequences up to the given length over an 18-op alphabet", "max_len": maxLen}, 0, st, true, registry["C15"].Rule)
	}
	runRapid(t, "C15")
}

func TestC19(t *testing.T) { runRapid(t, "C19") }

// FuzzC19 is the coverage-guided variant of the C19 target (thorough tier).
func FuzzC19(f *testing.F) {
	for _, b := range loadCorpus() {
		f.Add(b)
	}
	f.Fuzz(func(t *testing.T, b []byte) {
		if len(b) > 1<<16 {
			return
		}
		if err := fuzzOne(b); err != nil {
			t.Fatalf("property C19 violated: %v", err)
		}
	})
}

// TestC05 adds, on shard 0, the exhaustive sweep of every legal slab size: the public limits must
// leave room for two maximal elements in a slab of the configured size (so that a full slab can
// always be split into valid halves) and must be monotone.
func TestC05(t *testing.T) {
	if idx := os.Getenv("VERIF_SHARD_INDEX"); idx == "" || idx == "0" {
		st := newCaseStats()
		var prevA, prevM, prevK uint32
		n := 0
		for s := uint32(256); s <= 32768; s++ {
			min, max := atree.VerifSetSlabSize(s)
			a, m, k := atree.MaxInlineArrayElementSize(), atree.MaxInlineMapElementSize(), atree.MaxInlineMapKeySize()
			fail := func(f string, args ...any) {
				rp := replayPathFor("C05")
				_ = os.MkdirAll(ReplayDir(), 0o755)
				msg := fmt.Sprintf("slab size %d: ", s) + fmt.Sprintf(f, args...)
				b, _ := json.MarshalIndent(map[string]any{"property": "C05", "failure": msg, "case": map[string]any{"prop": "C05", "cfg": map[string]any{"slab": s, "roots": []any{}}, "ops": []any{}}}, "", " ")
				_ = os.WriteFile(rp, b, 0o644)
				t.Fatalf("property C05 violated: %s\nVERIF-REPLAY %s", msg, rp)
			}
			if atree.VerifSlabSize() != s {
				fail("configured size reads back as %d", atree.VerifSlabSize())
			}
			if min != s/2 || uint64(max) != uint64(s)*3/2 {
				fail("band is [%d,%d], expected [%d,%d]", min, max, s/2, uint64(s)*3/2)
			}
			// array data slab: 21-byte non-root prefix + two maximal elements fit in the target size
			if 21+2*uint64(a) > uint64(s) {
				fail("two maximal array elements (%d bytes each) plus the slab prefix exceed the slab size", a)
			}
			// map data slab: 18-byte prefix + 8-byte elements prefix + two maximal elements with their digests
			if 18+8+2*(uint64(m)+8) > uint64(s) {
				fail("two maximal map elements (%d bytes each) plus digests and prefixes exceed the slab size", m)
			}
			// a key and a value of key size both fit one element; the key limit leaves room for a reference-sized value
			if 2*uint64(k)+1 > uint64(m) || uint64(k)+1+19 > uint64(m) {
				fail("key limit %d does not fit the element limit %d", k, m)
			}
			if a == 0 || m == 0 || k == 0 {
				fail("a limit is zero (%d %d %d)", a, m, k)
			}
			if a < prevA || m < prevM || k < prevK {
				fail("limits are not monotone in the slab size (%d %d %d after %d %d %d)", a, m, k, prevA, prevM, prevK)
			}
			prevA, prevM, prevK = a, m, k
			n++
		}
		atree.VerifSetSlabSize(1024)
		st.label("exhaustive_slab_size_sweep")
		st.Add("slab_sizes_swept", n)
		Emit("C05", map[string]any{"exhaustive": "every legal slab size 256..32768: band and element-limit arithmetic"}, 0, st, true, registry["C05"].Rule)
	}
	runRapid(t, "C05")
}

// TestMinimize shrinks the engine case of a replay file further (VERIF_REPLAY in, same file rewritten).
func TestMinimize(t *testing.T) {
	path := os.Getenv("VERIF_REPLAY")
	if path == "" {
		t.Skip("VERIF_REPLAY not set")
	}
	b, err := os.ReadFile(path)
	if err != nil {
		t.Fatal(err)
	}
	var w struct {
		Property string          `json:"property"`
		Case     json.RawMessage `json:"case"`
	}
	if err := json.Unmarshal(b, &w); err != nil {
		t.Fatal(err)
	}
	p := registry[w.Property]
	if p == nil {
		t.Fatalf("unknown property %q", w.Property)
	}
	c, ok := p.New().(*Case)
	if !ok {
		t.Skip("not an engine case")
	}
	if err := json.Unmarshal(w.Case, c); err != nil {
		t.Fatal(err)
	}
	m, msg := minimizeCase(p, c)
	if msg == "" {
		t.Logf("case does not fail: nothing to minimise")
		return
	}
	out, _ := json.MarshalIndent(map[string]any{"property": w.Property, "failure": msg, "case": m}, "", " ")
	if err := os.WriteFile(path, out, 0o644); err != nil {
		t.Fatal(err)
	}
	t.Logf("minimised from %d to %d ops", len(c.Ops), len(m.Ops))
}
