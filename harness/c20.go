package harness

// c20.go: the storage health check accepts exactly the healthy storages.
// Healthy storages come from generated histories; then every single-slab
// corruption of each kind is enumerated at every slab (fault enumeration).

import (
	"fmt"
	"sort"

	"github.com/onflow/atree"
	"pgregory.net/rapid"
)

func loadAll(l *Ledger) (*atree.PersistentSlabStorage, error) {
	st := NewStorage(l)
	if err := st.BatchPreload(l.Keys(), 4); err != nil {
		return nil, fmt.Errorf("BatchPreload failed: %v", err)
	}
	return st, nil
}

func idSet(ids []atree.SlabID) map[atree.SlabID]bool {
	m := map[atree.SlabID]bool{}
	for _, id := range ids {
		m[id] = true
	}
	return m
}

func runC20(cs *Case) (*CaseStats, error) {
	// the live storage (write set + cache, both commit flavours) must be accepted after every step too
	e, err := NewEngine(cs.Cfg, Oracles{CmpEvery: 0, Health: true})
	if err != nil {
		return nil, err
	}
	st := e.Stats
	if err := e.Run(cs.Ops); err != nil {
		return st, err
	}
	if err := e.Commit(0); err != nil {
		return st, err
	}
	nRoots := len(e.Roots)
	// independent picture of the healthy storage
	ref := newWalk(NewStorage(e.L))
	under := map[atree.SlabID][]atree.SlabID{} // root -> all slabs below it
	for _, r := range e.Roots {
		before := len(ref.Order)
		if _, err := ref.visit(r.Root, nil, false); err != nil {
			return st, e.viol("%v", err)
		}
		for _, si := range ref.Order[before+1:] {
			under[r.Root] = append(under[r.Root], si.ID)
		}
	}
	if len(ref.Slabs) != len(e.L.Regs) {
		return st, e.viol("harness: committed ledger has %d registers, %d reachable", len(e.L.Regs), len(ref.Slabs))
	}
	// --- healthy: must pass and return the true roots
	hs, err := loadAll(e.L)
	if err != nil {
		return st, e.viol("%v", err)
	}
	roots, err := atree.CheckStorageHealth(hs, nRoots)
	if err != nil {
		return st, e.viol("health check rejects a healthy storage: %v", err)
	}
	if len(roots) != nRoots {
		return st, e.viol("health check returns %d roots, there are %d", len(roots), nRoots)
	}
	for _, r := range e.Roots {
		if _, ok := roots[r.Root]; !ok {
			return st, e.viol("health check does not report root %s", r.Root)
		}
	}
	if _, err := atree.CheckStorageHealth(hs, -1); err != nil {
		return st, e.viol("health check (no expected count) rejects a healthy storage: %v", err)
	}
	for _, r := range e.Roots {
		refs, broken, err := hs.GetAllChildReferences(r.Root)
		if err != nil {
			return st, e.viol("GetAllChildReferences(%s) failed: %v", r.Root, err)
		}
		if len(broken) != 0 {
			return st, e.viol("GetAllChildReferences(%s) reports broken references %v on a healthy storage", r.Root, broken)
		}
		want := idSet(under[r.Root])
		got := idSet(refs)
		if len(refs) != len(got) {
			return st, e.viol("GetAllChildReferences(%s) lists a reference twice: %v", r.Root, refs)
		}
		if len(got) != len(want) {
			return st, e.viol("GetAllChildReferences(%s) returns %d references, the tree has %d", r.Root, len(got), len(want))
		}
		for id := range want {
			if !got[id] {
				return st, e.viol("GetAllChildReferences(%s) misses %s", r.Root, id)
			}
		}
	}
	st.Add("healthy_storages", 1)
	// wrong expected count must be rejected
	if _, err := atree.CheckStorageHealth(hs, nRoots+1); err == nil {
		return st, e.viol("health check accepts a wrong expected root count")
	}

	evals := 0
	mustFail := func(what string, s atree.SlabStorage, n int) error {
		evals++
		if _, err := atree.CheckStorageHealth(s, n); err == nil {
			return e.viol("health check accepts a storage corrupted by: %s", what)
		}
		return nil
	}
	var nonRoots []*SI
	for _, si := range ref.Order {
		if si.Parent != nil {
			nonRoots = append(nonRoots, si)
		}
	}
	sort.Slice(nonRoots, func(i, j int) bool { return nonRoots[i].ID.Compare(nonRoots[j].ID) < 0 })
	// --- (a) delete a referenced slab, three ways
	for _, si := range nonRoots {
		isLeaf := len(si.Kids) == 0
		what := fmt.Sprintf("deleting referenced %s slab %s (leaf=%v)", kindName[si.Kind], si.ID, isLeaf)
		// 1. deleted from the ledger, everything else loaded
		l2 := e.L.Clone()
		delete(l2.Regs, si.ID)
		s1, err := loadAll(l2)
		if err != nil {
			return st, e.viol("%v", err)
		}
		if err := mustFail(what+" [register deleted, rest preloaded]", s1, nRoots); err != nil {
			return st, err
		}
		// the all-child-references query reports exactly that reference as broken
		owner := si
		for owner.Parent != nil {
			owner = owner.Parent
		}
		refs, broken, err := s1.GetAllChildReferences(owner.ID)
		if err != nil {
			return st, e.viol("GetAllChildReferences failed on a storage with a dangling reference: %v", err)
		}
		if len(broken) != 1 || broken[0] != si.ID {
			return st, e.viol("GetAllChildReferences(%s) after %s reports broken=%v", owner.ID, what, broken)
		}
		// resolvable ones: everything under the owner except the deleted slab and what hangs below it
		lost := map[atree.SlabID]bool{si.ID: true}
		var mark func(x *SI)
		mark = func(x *SI) {
			for _, k := range x.Kids {
				lost[k.ID] = true
				mark(k)
			}
		}
		mark(si)
		wantN := 0
		for _, id := range under[owner.ID] {
			if !lost[id] {
				wantN++
			}
		}
		if len(refs) != wantN {
			return st, e.viol("GetAllChildReferences(%s) after %s returns %d resolvable references, expected %d", owner.ID, what, len(refs), wantN)
		}
		// 2. removed through the storage
		s2, err := loadAll(e.L.Clone())
		if err != nil {
			return st, e.viol("%v", err)
		}
		if err := s2.Remove(si.ID); err != nil {
			return st, e.viol("Remove failed: %v", err)
		}
		if err := mustFail(what+" [removed through the storage]", s2, nRoots); err != nil {
			return st, err
		}
		// ... where the slab is still in the read cache and in the ledger, but gone for every reader of the storage:
		// the all-child-references query must report it as broken, too
		refs2, broken2, err := s2.GetAllChildReferences(owner.ID)
		if err != nil {
			return st, e.viol("GetAllChildReferences failed on a storage with a removed slab: %v", err)
		}
		if len(broken2) != 1 || broken2[0] != si.ID {
			return st, e.viol("GetAllChildReferences(%s) after %s [removed through the storage] reports broken=%v", owner.ID, what, broken2)
		}
		if len(refs2) != wantN {
			return st, e.viol("GetAllChildReferences(%s) after %s [removed through the storage] returns %d resolvable references, expected %d", owner.ID, what, len(refs2), wantN)
		}
		// 3. the same on a BasicSlabStorage
		bs := atree.NewBasicSlabStorage(EncMode, DecMode, DecodeStorable, DecodeTypeInfo)
		for id, b := range e.L.Regs {
			if id == si.ID {
				continue
			}
			s, err := atree.DecodeSlab(id, b, DecMode, DecodeStorable, DecodeTypeInfo)
			if err != nil {
				return st, e.viol("decode failed: %v", err)
			}
			_ = bs.Store(id, s)
		}
		if err := mustFail(what+" [basic storage without it]", bs, nRoots); err != nil {
			return st, err
		}
		if isLeaf {
			st.label("deleted_leaf")
		} else {
			st.label("deleted_inner")
		}
	}
	// --- (b) add an unreferenced slab
	{
		s, err := loadAll(e.L.Clone())
		if err != nil {
			return st, e.viol("%v", err)
		}
		if _, err := atree.NewArray(s, addrOf(1), TI{N: 1}); err != nil {
			return st, e.viol("NewArray failed: %v", err)
		}
		if err := mustFail("adding an unreferenced container root", s, nRoots); err != nil {
			return st, err
		}
		s, err = loadAll(e.L.Clone())
		if err != nil {
			return st, e.viol("%v", err)
		}
		if _, err := atree.NewStorableSlab(s, addrOf(1), Str{"orphan"}, Str{"orphan"}.ByteSize()); err != nil {
			return st, e.viol("NewStorableSlab failed: %v", err)
		}
		if err := mustFail("adding an unreferenced large-value slab", s, nRoots); err != nil {
			return st, err
		}
	}
	// --- (c) reference a slab from a second place, (d) reference a slab of another owner
	for _, si := range nonRoots {
		for _, r := range e.Roots {
			owner := si
			for owner.Parent != nil {
				owner = owner.Parent
			}
			sameOwner := r.Addr == si.ID.Address()
			s, err := loadAll(e.L.Clone())
			if err != nil {
				return st, e.viol("%v", err)
			}
			var perr error
			if r.IsMap {
				m, err := atree.NewMapWithRootID(s, r.Root, e.digesterFor(r))
				if err != nil {
					return st, e.viol("open failed: %v", err)
				}
				km, ok := e.absentKey(r, uint64(len(r.Ents)))
				if !ok || (r.Dig != nil && e.expectRefusal(r, km)) {
					continue
				}
				_, perr = m.Set(e.CB.Compare, e.CB.HashInput, keyValue(km), RawRef{ID: si.ID})
			} else {
				a, err := atree.NewArrayWithRootID(s, r.Root)
				if err != nil {
					return st, e.viol("open failed: %v", err)
				}
				perr = a.Append(RawRef{ID: si.ID})
			}
			if perr != nil {
				return st, e.viol("planting a reference failed: %v", perr)
			}
			what := fmt.Sprintf("referencing %s slab %s a second time from root %s", kindName[si.Kind], si.ID, r.Root)
			if !sameOwner {
				what = fmt.Sprintf("referencing %s slab %s (owner %x) from root %s of another owner", kindName[si.Kind], si.ID, si.ID.Address(), r.Root)
				st.label("foreign_owner_reference")
			} else {
				st.label("double_reference")
			}
			if err := mustFail(what, s, nRoots); err != nil {
				return st, err
			}
		}
	}
	// (d') a reference to a root of another owner: not doubly referenced, only wrongly owned
	for _, r := range e.Roots {
		for _, q := range e.Roots {
			if q == r || q.Addr == r.Addr || r.IsMap {
				continue
			}
			s, err := loadAll(e.L.Clone())
			if err != nil {
				return st, e.viol("%v", err)
			}
			a, err := atree.NewArrayWithRootID(s, r.Root)
			if err != nil {
				return st, e.viol("open failed: %v", err)
			}
			if err := a.Append(RawRef{ID: q.Root}); err != nil {
				return st, e.viol("planting a reference failed: %v", err)
			}
			// q is now referenced, so the expected number of roots is one less
			if err := mustFail(fmt.Sprintf("nesting root %s under root %s of another owner", q.Root, r.Root), s, nRoots-1); err != nil {
				return st, err
			}
			st.label("foreign_owner_only")
		}
	}
	// (d'') the same with the temporary (zero) address at either end: a temporary container that holds an owned root,
	// and an owned array that holds a temporary container
	for _, q := range e.Roots {
		s, err := loadAll(e.L.Clone())
		if err != nil {
			return st, e.viol("%v", err)
		}
		t, err := atree.NewArray(s, atree.AddressUndefined, TI{N: 1})
		if err != nil {
			return st, e.viol("NewArray failed: %v", err)
		}
		if err := t.Append(RawRef{ID: q.Root}); err != nil {
			return st, e.viol("planting a reference failed: %v", err)
		}
		// q is referenced now and t is a root: the number of roots is unchanged
		if err := mustFail(fmt.Sprintf("nesting root %s under a container with the temporary address", q.Root), s, nRoots); err != nil {
			return st, err
		}
		st.label("temp_owner_parent")
		if q.IsMap {
			continue
		}
		s, err = loadAll(e.L.Clone())
		if err != nil {
			return st, e.viol("%v", err)
		}
		t, err = atree.NewArray(s, atree.AddressUndefined, TI{N: 1})
		if err != nil {
			return st, e.viol("NewArray failed: %v", err)
		}
		a, err := atree.NewArrayWithRootID(s, q.Root)
		if err != nil {
			return st, e.viol("open failed: %v", err)
		}
		if err := a.Append(RawRef{ID: t.SlabID()}); err != nil {
			return st, e.viol("planting a reference failed: %v", err)
		}
		if err := mustFail(fmt.Sprintf("nesting a container with the temporary address under root %s", q.Root), s, nRoots); err != nil {
			return st, err
		}
		st.label("temp_owner_child")
	}
	st.Add("corrupted_storages", evals)
	st.Add("slabs", len(ref.Order))
	return st, nil
}

func init() {
	g := scale(&GenCfg{
		Slabs: quickSlabs, MinOps: 1, MaxOps: 30,
		W: map[string]int{
			"app": 8, "ins": 4, "set": 5, "rem": 6, "appN": 6, "remN": 3,
			"mset": 12, "mrem": 6, "msetN": 5, "mremN": 2, "styp": 1, "commit": 1, "reopen": 1,
		},
		Roots: [][]RootSpec{
			{{K: "arr", Addr: 1, TI: 1}},
			{{K: "map", Addr: 1, TI: 2}},
			{{K: "arr", Addr: 1, TI: 1}, {K: "map", Addr: 2, TI: 2}},
			{{K: "arr", Addr: 2, TI: 1}, {K: "arr", Addr: 1, TI: 1}, {K: "map", Addr: 1, TI: 2}},
		},
		MaxBulk: 40, Keys: []int{12, 64},
		ValW:     map[string]int{"u": 8, "s0": 3, "s1": 4, "s2": 3, "s5": 3, "s6": 1, "some": 2, "arr": 4, "map": 3},
		MaxDepth: 2, MaxElems: 6, AcqW: [3]int{8, 1, 1},
		CollLimits: []uint32{255}, NondetPct: 50,
	})
	g.W["commit"], g.W["evict"] = 4, 1
	g.DigRootsPct = 25
	register(&PropDef{
		ID:         "C20",
		New:        func() any { return &Case{} },
		Gen:        func(t *rapid.T) any { return g.genCase(t, "C20") },
		Run:        func(c any) (*CaseStats, error) { return runC20(c.(*Case)) },
		Nontrivial: func(s *CaseStats) bool { return s.Has("deleted_leaf") && s.Extra["corrupted_storages"] >= 6 },
		Rule:       "healthy storage with >=1 non-root slab; every non-root slab deleted in three ways, referenced a second time and referenced from another owner; unreferenced slabs added; >=6 corrupted storages per case",
		Slab:       caseSlab,
	})
}
