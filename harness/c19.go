package harness

// c19.go: decoding untrusted bytes never panics, hangs or allocates out of
// proportion.  Deterministic structured mutation (rapid) over a corpus of valid
// registers of every slab kind and both format versions; the same target is
// used by the native fuzzer (FuzzC19).

import (
	"bytes"
	"encoding/hex"
	"errors"
	"fmt"
	"os"
	"path/filepath"
	"runtime/debug"
	"runtime/metrics"
	"sort"
	"sync"
	"sync/atomic"
	"time"

	"github.com/fxamacker/cbor/v2"
	"github.com/onflow/atree"
	"pgregory.net/rapid"
)

// Opaque is a storable of unknown application type: the C19 target accepts any
// well-formed CBOR item as an element so that registers written with other
// tag schemes (the repository's test vectors) are decoded deeply too.
type Opaque struct{ Raw []byte }

func (o Opaque) Encode(enc *atree.Encoder) error                    { return enc.CBOR.EncodeRawBytes(o.Raw) }
func (o Opaque) ByteSize() uint32                                   { return uint32(len(o.Raw)) }
func (o Opaque) StoredValue(atree.SlabStorage) (atree.Value, error) { return nil, errors.New("opaque") }
func (o Opaque) ChildStorables() []atree.Storable                   { return nil }
func (o Opaque) CanCopyNonRefSimple() bool                          { return true }
func (o Opaque) CopyNonRefSimple() (atree.Storable, error)          { return o, nil }

func fuzzDecodeStorable(dec *cbor.StreamDecoder, id atree.SlabID, ied []atree.ExtraData) (atree.Storable, error) {
	return fuzzDecodeStorableD(dec, id, ied, 0)
}

func fuzzDecodeStorableD(dec *cbor.StreamDecoder, id atree.SlabID, ied []atree.ExtraData, depth int) (atree.Storable, error) {
	if depth > maxDecodeDepth {
		return nil, errors.New("storable nesting too deep")
	}
	t, err := dec.NextType()
	if err != nil {
		return nil, err
	}
	if t == cbor.TagType {
		// peek the tag number: atree's own tags go to atree's decoders
		raw, err := dec.DecodeRawBytes()
		if err != nil {
			return nil, err
		}
		if len(raw) >= 2 && raw[0] == 0xd8 {
			sub := DecMode.NewByteStreamDecoder(raw)
			tn, err := sub.DecodeTagNumber()
			if err != nil {
				return nil, err
			}
			rec := func(d *cbor.StreamDecoder, i atree.SlabID, e []atree.ExtraData) (atree.Storable, error) {
				return fuzzDecodeStorableD(d, i, e, depth+1)
			}
			switch tn {
			case atree.CBORTagInlinedArray:
				return atree.DecodeInlinedArrayStorable(sub, rec, id, ied)
			case atree.CBORTagInlinedMap:
				return atree.DecodeInlinedMapStorable(sub, rec, id, ied)
			case atree.CBORTagInlinedCompactMap:
				return atree.DecodeInlinedCompactMapStorable(sub, rec, id, ied)
			case atree.CBORTagSlabID:
				return atree.DecodeSlabIDStorable(sub)
			}
		}
		return Opaque{Raw: raw}, nil
	}
	raw, err := dec.DecodeRawBytes()
	if err != nil {
		return nil, err
	}
	return Opaque{Raw: raw}, nil
}

type opaqueTI struct{ raw []byte }

func (t opaqueTI) Encode(enc *cbor.StreamEncoder) error { return enc.EncodeRawBytes(t.raw) }
func (t opaqueTI) IsComposite() bool                    { return len(t.raw) > 0 && t.raw[0]>>5 == 6 }
func (t opaqueTI) Copy() atree.TypeInfo                 { return t }

func fuzzDecodeTypeInfo(dec *cbor.StreamDecoder) (atree.TypeInfo, error) {
	raw, err := dec.DecodeRawBytes()
	if err != nil {
		return nil, err
	}
	return opaqueTI{raw: raw}, nil
}

var (
	allocSample = []metrics.Sample{{Name: "/gc/heap/allocs:bytes"}}
	curInput    atomic.Pointer[[]byte]
	curStart    atomic.Int64
	watchOnce   sync.Once
)

const (
	c19HangSeconds = 10
	c19AllocBase   = 4 << 20
	c19AllocPerB   = 2048
)

func heapAllocs() uint64 {
	metrics.Read(allocSample)
	return allocSample[0].Value.Uint64()
}

// startWatchdog kills the process (exit code 3, input saved) when one input runs longer than the bound.
func startWatchdog() {
	watchOnce.Do(func() {
		go func() {
			for {
				time.Sleep(time.Second)
				p := curInput.Load()
				s := curStart.Load()
				if p != nil && s != 0 && time.Since(time.Unix(0, s)) > c19HangSeconds*time.Second {
					_ = os.MkdirAll(ReplayDir(), 0o755)
					path := replayPathFor("C19")
					b := fmt.Sprintf(`{"property":"C19","failure":"decoding did not finish within %d s","case":{"prop":"C19","hex":"%s"}}`, c19HangSeconds, hex.EncodeToString(*p))
					_ = os.WriteFile(path, []byte(b), 0o644)
					// not yet a verdict: the driver re-runs this input alone and only a second hang is a violation
					fmt.Printf("VERIF-HANG %s\n", path)
					os.Exit(3)
				}
			}
		}()
	})
}

func walkStorables(items []atree.Storable, budget *int) {
	for _, s := range items {
		if *budget <= 0 {
			return
		}
		*budget--
		_ = s.ByteSize()
		walkStorables(s.ChildStorables(), budget)
	}
}

// fuzzOne is the C19 target.
func fuzzOne(b []byte) (err error) {
	startWatchdog()
	curInput.Store(&b)
	curStart.Store(time.Now().UnixNano())
	defer curStart.Store(0)
	defer func() {
		if r := recover(); r != nil {
			err = fmt.Errorf("panic while decoding %d bytes: %v\n%s", len(b), r, debug.Stack())
		}
	}()
	before := heapAllocs()
	_, _ = atree.IsRootOfAnObject(b)
	_, _ = atree.HasPointers(b)
	_, _ = atree.HasSizeLimit(b)
	id := atree.NewSlabID(addrOf(1), atree.SlabIndex{0, 0, 0, 0, 0, 0, 0, 9})
	for pass, dec := range []atree.StorableDecoder{fuzzDecodeStorable, DecodeStorable} {
		tid := fuzzDecodeTypeInfo
		if pass == 1 {
			tid = DecodeTypeInfo
		}
		s, derr := atree.DecodeSlab(id, b, DecMode, dec, tid)
		if derr != nil {
			continue
		}
		if s == nil {
			return fmt.Errorf("DecodeSlab returned neither a slab nor an error")
		}
		_ = s.ByteSize()
		_ = s.SlabID()
		budget := 200000
		walkStorables(s.ChildStorables(), &budget)
		_ = s.String()
	}
	if d := heapAllocs() - before; d > c19AllocBase+uint64(len(b))*c19AllocPerB {
		return fmt.Errorf("decoding %d bytes allocated %d bytes (bound %d + %d per input byte)", len(b), d, c19AllocBase, c19AllocPerB)
	}
	return nil
}

// ---------------------------------------------------------------- corpus

var (
	corpusOnce sync.Once
	corpus     [][]byte
)

// harvest runs a few deterministic engine histories and collects every committed register.
func harvest() [][]byte {
	seen := map[string]bool{}
	var out [][]byte
	add := func(b []byte) {
		if !seen[string(b)] {
			seen[string(b)] = true
			out = append(out, append([]byte(nil), b...))
		}
	}
	val := func(i uint64) *VD {
		switch i % 9 {
		case 0:
			return &VD{K: "arr", N: i, L: int(i % 4), E: &VD{K: "s", Z: 1, N: i}}
		case 1:
			return &VD{K: "cmap", N: i % 2, L: 2 + int(i%2), E: &VD{K: "u", N: i}}
		case 2:
			return &VD{K: "map", N: i, L: int(i % 3), E: &VD{K: "arr", L: 1, E: &VD{K: "u", N: 3}}}
		case 3:
			return &VD{K: "s", Z: 5, N: i}
		case 4:
			return &VD{K: "some", W: 1 + int(i%3), E: &VD{K: "s", Z: 1, N: i}}
		case 5:
			return &VD{K: "some", W: 1, E: &VD{K: "arr", L: 2, E: &VD{K: "u", N: i}}}
		case 6:
			return &VD{K: "s", Z: 2, N: i}
		}
		return &VD{K: "u", N: i * 977}
	}
	for ci, slab := range []uint32{256, 512, 1024} {
		for _, dig := range []*DigSpec{nil, {Levels: 2, Alpha: [4]uint64{3, 0}, Salt: 1}, {Levels: 1, Alpha: [4]uint64{2}, Salt: 2}, {Levels: 4, Alpha: [4]uint64{1, 1, 1, 1}, Salt: 3}} {
			cfg := Config{Slab: slab, Keys: 80, Roots: []RootSpec{{K: "arr", Addr: 1, TI: 1}, {K: "map", Addr: 1, TI: 2, Dig: dig}}}
			e, err := NewEngine(cfg, Oracles{})
			if err != nil {
				continue
			}
			var ops []Op
			for i := uint64(0); i < 40; i++ {
				ops = append(ops, Op{K: "app", V: val(i + uint64(ci))}, Op{K: "mset", T: 0, P: i * 3, V: val(i + 5)})
				if i%13 == 12 {
					ops = append(ops, Op{K: "commit"})
				}
			}
			ops = append(ops, Op{K: "appN", N: 60, V: &VD{K: "s", Z: 1}}, Op{K: "msetN", N: 60, P: 100, V: &VD{K: "u", N: 5}}, Op{K: "commit"})
			for i := range ops {
				e.step, e.curOp = i, &ops[i]
				if err := e.Apply(&ops[i]); err != nil {
					break
				}
				if ops[i].K == "commit" {
					for _, b := range e.L.Regs {
						add(b)
					}
				}
			}
		}
	}
	sort.Slice(out, func(i, j int) bool { return string(out[i]) < string(out[j]) })
	return out
}

func corpusDir() string {
	if d := os.Getenv("VERIF_CORPUS_DIR"); d != "" {
		return d
	}
	return "/verif/corpus/c19"
}

func loadCorpus() [][]byte {
	corpusOnce.Do(func() {
		corpus = harvest()
		files, _ := filepath.Glob(filepath.Join(corpusDir(), "*"))
		sort.Strings(files)
		for _, f := range files {
			if b, err := os.ReadFile(f); err == nil && len(b) >= 2 {
				corpus = append(corpus, b)
			}
		}
		// hostile constants
		corpus = append(corpus,
			[]byte{}, []byte{0x10}, []byte{0x10, 0x80}, []byte{0x00, 0x80}, []byte{0x10, 0x3f, 0x9b, 0xff, 0xff, 0xff, 0xff, 0xff, 0xff, 0xff, 0xff},
			[]byte{0x10, 0x00, 0x9a, 0xff, 0xff, 0xff, 0xff}, []byte{0x00, 0x00, 0x9a, 0xff, 0xff, 0xff, 0xff},
			[]byte{0x10, 0x81, 0, 0, 0, 0, 0, 0, 0, 1, 0xff, 0xff}, []byte{0x10, 0x89, 0x83, 0x00, 0x00, 0x00, 0, 0, 0, 0, 0, 0, 0, 1, 0xff, 0xff},
			[]byte{0x10, 0x88, 0x83, 0x00, 0x1b, 0xff, 0xff, 0xff, 0xff, 0xff, 0xff, 0xff, 0xff, 0x01, 0x83, 0x00, 0x5b, 0xff, 0xff, 0xff, 0xff, 0xff, 0xff, 0xff, 0xff},
		)
	})
	return corpus
}

// ---------------------------------------------------------------- structured mutation

type FMut struct {
	K string `json:"k"` // trunc, flip, set, splice, ins, dup, head, len, idx, tag, cmap, bump2, widen, resize
	P int    `json:"p"`
	V int    `json:"v,omitempty"`
	N int    `json:"n,omitempty"`
	O int    `json:"o,omitempty"`
}

type FCase struct {
	Prop string `json:"prop"`
	Base int    `json:"base,omitempty"`
	Muts []FMut `json:"muts,omitempty"`
	Hex  string `json:"hex,omitempty"` // the exact input (filled in when the case is run)
}

func (c *FCase) bytes() []byte {
	if c.Hex != "" && len(c.Muts) == 0 {
		b, _ := hex.DecodeString(c.Hex)
		return b
	}
	cp := loadCorpus()
	b := append([]byte(nil), cp[c.Base%len(cp)]...)
	for _, m := range c.Muts {
		pos := 0
		if len(b) > 0 {
			pos = m.P % len(b)
		}
		switch m.K {
		case "trunc":
			b = b[:pos]
		case "flip":
			if len(b) > 0 {
				b[pos] ^= 1 << (m.V % 8)
			}
		case "set":
			if len(b) > 0 {
				b[pos] = byte(m.V)
			}
		case "head": // edit a byte in the first 40 bytes with a CBOR-significant value
			if len(b) > 0 {
				vals := []byte{0x00, 0x17, 0x18, 0x19, 0x1a, 0x1b, 0x1f, 0x40, 0x58, 0x59, 0x5b, 0x5f, 0x80, 0x81, 0x82, 0x83, 0x98, 0x99, 0x9a, 0x9b, 0x9f, 0xa0, 0xbf, 0xd8, 0xf6, 0xff, 246, 247, 248, 249, 250, 251, 252, 253, 254, 255}
				q := m.P % 120
				if m.P%3 != 0 {
					q = m.P % 40
				}
				if q >= len(b) {
					q = len(b) - 1
				}
				b[q] = vals[m.V%len(vals)]
			}
		case "idx", "tag": // k-th one-byte-argument uint head (0x18 nn) / tag head (0xd8 nn): rewrite nn
			marker := byte(0x18)
			if m.K == "tag" {
				marker = 0xd8
			}
			var at []int
			for i := 0; i+1 < len(b); i++ {
				if b[i] == marker {
					at = append(at, i+1)
				}
			}
			if len(at) > 0 {
				q := at[m.P%len(at)]
				if m.K == "tag" {
					b[q] = byte(246 + m.V%10)
				} else {
					b[q] = []byte{0, 1, 2, 3, 23, 24, 0x7f, 0x80, 0xfe, 0xff}[m.V%10]
				}
			}
		case "widen": // a one-byte unsigned integer becomes an 8-byte one with an extreme value (index / count fields)
			var at []int
			for j := 2; j < len(b); j++ {
				small := b[j] <= 0x17
				if m.V%2 == 0 {
					// only right after a type-info reference tag (d8 f6) or a one-byte uint head (18)
					if j >= 2 && b[j-2] == 0xd8 && b[j-1] == 0xf6 && small {
						at = append(at, j)
					}
				} else if small || (b[j] == 0x18 && j+1 < len(b)) {
					at = append(at, j)
				}
			}
			if len(at) > 0 {
				q := at[m.P%len(at)]
				ext := [][8]byte{{0x80}, {0xff, 0xff, 0xff, 0xff, 0xff, 0xff, 0xff, 0xff}, {0, 0, 0, 1}, {0, 0, 0, 0, 0x80}, {0x7f, 0xff, 0xff, 0xff, 0xff, 0xff, 0xff, 0xff}}
				x := ext[(m.V/2)%len(ext)]
				skip := 1
				if b[q] == 0x18 {
					skip = 2
				}
				nb := append([]byte(nil), b[:q]...)
				nb = append(nb, 0x1b)
				nb = append(nb, x[:]...)
				if q+skip <= len(b) {
					nb = append(nb, b[q+skip:]...)
				}
				b = nb
			}
		case "bump2": // two small counts / array heads incremented together (coordinated length fields)
			var at []int
			for j := 2; j < len(b); j++ {
				if b[j] <= 0x16 || (b[j] >= 0x80 && b[j] <= 0x96) {
					at = append(at, j)
				}
			}
			if len(at) >= 2 {
				x, y := at[m.P%len(at)], at[(m.P/7+m.N)%len(at)]
				b[x]++
				if y != x {
					b[y]++
				}
			}
		case "cmap": // coordinated edit of a compact-map type entry and of an inlined compact map that uses it
			i := bytes.Index(b, []byte{0xd8, 0xf9, 0x83, 0x83})
			if i < 0 {
				break
			}
			p := i + 4
			l, err := cborItemLen(b, p) // type info
			if err != nil || p+l >= len(b) {
				break
			}
			p += l
			variant := m.V % 4
			if variant != 1 && b[p] < 0x17 {
				b[p]++ // Count field of the shared map extra data
			}
			if variant == 0 {
				break
			}
			var at []int
			for j := 0; j+14 < len(b); j++ {
				if b[j] == 0xd8 && b[j+1] == 0xfc && b[j+2] == 0x83 && b[j+3] == 0x18 && b[j+5] == 0x48 {
					at = append(at, j+14)
				}
			}
			if len(at) == 0 {
				break
			}
			q := at[m.P%len(at)]
			if q < len(b) && b[q]&0xe0 == 0x80 && b[q]&0x1f < 0x17 {
				b[q]++ // number of values
				if variant == 3 {
					if vl, err := cborItemLen(b, q+1); err == nil && q+1+vl <= len(b) {
						dup := append([]byte(nil), b[q+1:q+1+vl]...)
						b = append(append(append([]byte(nil), b[:q+1]...), dup...), b[q+1:]...)
					}
				}
			}
		case "len": // set a 2-byte big-endian field to an extreme
			if len(b) >= 2 {
				q := pos
				if q+1 >= len(b) {
					q = len(b) - 2
				}
				ext := [][2]byte{{0xff, 0xff}, {0x00, 0x00}, {0x80, 0x00}, {0x00, 0x01}, {0x7f, 0xff}}
				x := ext[m.V%len(ext)]
				b[q], b[q+1] = x[0], x[1]
			}
		case "resize": // a byte / text string grows or shrinks by 1..8 bytes, head and content changed TOGETHER
			type cand struct{ p, hl, ln int }
			var cands []cand
			for p := 2; p < len(b); p++ {
				major, ai := b[p]>>5, b[p]&0x1f
				if major != 2 && major != 3 {
					continue
				}
				hl, ln := 0, 0
				switch {
				case ai < 24:
					hl, ln = 1, int(ai)
				case ai == 24 && p+1 < len(b):
					hl, ln = 2, int(b[p+1])
				case ai == 25 && p+2 < len(b):
					hl, ln = 3, int(b[p+1])<<8|int(b[p+2])
				default:
					continue
				}
				if ln >= 1 && p+hl+ln <= len(b) {
					cands = append(cands, cand{p, hl, ln})
				}
			}
			if len(cands) > 0 {
				c := cands[m.P%len(cands)]
				delta := 1 + m.V%8
				nl := c.ln + delta
				if m.N%2 == 1 {
					nl = c.ln - delta
				}
				if nl >= 0 && nl < 1<<16 {
					head := []byte{b[c.p]&0xe0 | 25, byte(nl >> 8), byte(nl)}
					if nl < 24 && c.hl == 1 {
						head = []byte{b[c.p]&0xe0 | byte(nl)}
					} else if nl < 256 && c.hl <= 2 {
						head = []byte{b[c.p]&0xe0 | 24, byte(nl)}
					}
					content := append([]byte(nil), b[c.p+c.hl:c.p+c.hl+c.ln]...)
					if nl > c.ln {
						for i := c.ln; i < nl; i++ {
							content = append(content, byte(mix64(uint64(m.V)+uint64(i))))
						}
					} else {
						content = content[:nl]
					}
					nb := append([]byte(nil), b[:c.p]...)
					nb = append(nb, head...)
					nb = append(nb, content...)
					nb = append(nb, b[c.p+c.hl+c.ln:]...)
					b = nb
				}
			}
		case "splice":
			o := cp[m.O%len(cp)]
			if len(o) > 0 {
				op := m.N % len(o)
				b = append(append([]byte(nil), b[:pos]...), o[op:]...)
			}
		case "ins":
			n := 1 + m.N%8
			ins := make([]byte, n)
			for i := range ins {
				ins[i] = byte(mix64(uint64(m.V) + uint64(i)))
			}
			b = append(append(append([]byte(nil), b[:pos]...), ins...), b[pos:]...)
		case "dup":
			n := 1 + m.N%32
			if pos+n > len(b) {
				n = len(b) - pos
			}
			if n > 0 && len(b) < 1<<16 {
				b = append(append(append([]byte(nil), b[:pos+n]...), b[pos:pos+n]...), b[pos+n:]...)
			}
		}
	}
	return b
}

var c19Stats struct {
	sync.Mutex
	distinct map[[2]uint64]bool
}

func init() {
	kinds := []string{"trunc", "flip", "flip", "set", "set", "splice", "ins", "dup", "head", "head", "len", "idx", "idx", "tag", "cmap", "bump2", "widen", "resize", "resize"}
	register(&PropDef{
		ID:  "C19",
		New: func() any { return &FCase{} },
		Gen: func(t *rapid.T) any {
			c := &FCase{Prop: "C19"}
			c.Base = rapid.IntRange(0, 1<<16).Draw(t, "base")
			n := rapid.IntRange(0, 4).Draw(t, "nm")
			for i := 0; i < n; i++ {
				m := FMut{K: rapid.SampledFrom(kinds).Draw(t, "k"), P: rapid.IntRange(0, 1<<16).Draw(t, "p")}
				switch m.K {
				case "flip", "set", "head", "len", "ins", "idx", "tag", "cmap", "widen", "resize":
					m.V = rapid.IntRange(0, 255).Draw(t, "v")
				}
				switch m.K {
				case "splice", "ins", "dup", "bump2", "resize":
					m.N = rapid.IntRange(0, 1<<12).Draw(t, "n")
				}
				if m.K == "splice" {
					m.O = rapid.IntRange(0, 1<<16).Draw(t, "o")
				}
				c.Muts = append(c.Muts, m)
			}
			return c
		},
		Run: func(c any) (*CaseStats, error) {
			fc := c.(*FCase)
			b := fc.bytes()
			fc.Hex = hex.EncodeToString(b)
			st := newCaseStats()
			st.Ops = len(fc.Muts)
			if len(fc.Muts) > 0 {
				st.label("mutated")
			} else {
				st.label("valid_register")
			}
			if len(b) >= 2 {
				if b[0]>>4 == 0 {
					st.label("version0")
				}
				st.label(fmt.Sprintf("type_%02x", b[1]&0x1f))
			}
			err := fuzzOne(b)
			fcMuts := fc.Muts
			if err != nil {
				fc.Muts = nil // the replay uses the exact bytes
				_ = fcMuts
			}
			// decodes successfully?
			if _, derr := atree.DecodeSlab(atree.NewSlabID(addrOf(1), atree.SlabIndex{7: 9}), b, DecMode, fuzzDecodeStorable, fuzzDecodeTypeInfo); derr == nil {
				st.label("decodes")
			}
			return st, err
		},
		Nontrivial: func(s *CaseStats) bool { return s.Has("mutated") },
		Rule:       "input is a mutation (truncate / bit flip / byte set / splice / insert / duplicate / CBOR-head edit / length-field edit) of a valid register of any slab kind and format version; distinct = distinct (base, mutation list)",
		Slab:       func(any) uint32 { return 0 },
	})
}
