package harness

// gen.go: rapid generators for cases.  Every random choice is a rapid draw, so
// cases shrink and replay.

import (
	"sort"

	"pgregory.net/rapid"
)

// GenCfg parameterises the case generator of one property.
type GenCfg struct {
	Slabs        []uint32 // slab sizes to choose from
	SlabAny      bool     // thorough: also uniform in [256, 32768]
	MinOps       int
	MaxOps       int
	W            map[string]int // op weights
	Roots        [][]RootSpec   // alternatives for the initial roots
	MaxBulk      int
	Keys         []int          // key-universe sizes
	ValW         map[string]int // value kind weights: u, s0..s7, some, arr, map, cmap
	MaxDepth     int            // nesting depth of generated container values
	MaxElems     int            // initial elements of generated containers
	Keep         int            // percentage of removals that keep the handed-back container (C11)
	AcqW         [3]int         // weights of handle acquisition modes 0,1,2
	CollLimits   []uint32       // C12
	NondetPct    int
	DigRoots     bool // C12: one root map with a generated digester
	DigRootsPct  int  // percentage of cases whose root maps get a generated digester
	HipGroupsPct int  // percentage of cases with a colliding hash-input provider (default digester collisions)
}

func weighted(t *rapid.T, w map[string]int, label string) string {
	keys := make([]string, 0, len(w))
	total := 0
	for k, v := range w {
		if v > 0 {
			keys = append(keys, k)
			total += v
		}
	}
	sort.Strings(keys)
	// stable order: heavier first so that shrinking moves towards common ops
	sort.SliceStable(keys, func(i, j int) bool { return w[keys[i]] > w[keys[j]] })
	x := rapid.IntRange(0, total-1).Draw(t, label)
	for _, k := range keys {
		if x < w[k] {
			return k
		}
		x -= w[k]
	}
	return keys[len(keys)-1]
}

var uintWidths = []uint64{0, 23, 24, 255, 256, 65535, 65536, 1<<32 - 1, 1 << 32, 1<<64 - 1}

func genU(t *rapid.T) uint64 {
	if rapid.IntRange(0, 3).Draw(t, "uw") == 0 {
		return rapid.SampledFrom(uintWidths).Draw(t, "uedge")
	}
	return rapid.Uint64Range(0, 100000).Draw(t, "u")
}

func (g *GenCfg) genVD(t *rapid.T, depth int) *VD {
	w := g.ValW
	if depth >= g.MaxDepth {
		w = map[string]int{}
		for k, v := range g.ValW {
			if k != "arr" && k != "map" && k != "cmap" && k != "barr" && k != "bmap" {
				w[k] = v
			}
		}
		if len(w) == 0 {
			w["u"] = 1
		}
	}
	k := weighted(t, w, "vk")
	switch k {
	case "u":
		return &VD{K: "u", N: genU(t)}
	case "s0", "s1", "s2", "s3", "s4", "s5", "s6", "s7":
		z := int(k[1] - '0')
		d := 0
		if z == 1 || z == 2 || z == 6 || z == 7 {
			d = rapid.IntRange(-3, 3).Draw(t, "sd")
		}
		return &VD{K: "s", Z: z, D: d, N: rapid.Uint64Range(0, 9999).Draw(t, "sn")}
	case "some":
		in := g.genVD(t, depth)
		if in.K == "some" {
			in = &VD{K: "u", N: 1}
		}
		return &VD{K: "some", W: rapid.IntRange(1, 3).Draw(t, "sw"), E: in}
	case "barr":
		return &VD{K: "barr", N: rapid.Uint64Range(0, 999).Draw(t, "bn"), L: rapid.IntRange(0, 24).Draw(t, "bl")}
	case "bmap":
		return &VD{K: "bmap", N: rapid.Uint64Range(0, 999).Draw(t, "bmn"), L: rapid.IntRange(0, 12).Draw(t, "bml")}
	case "arr", "map", "cmap":
		l := rapid.IntRange(0, g.MaxElems).Draw(t, "cl")
		if k == "cmap" && rapid.IntRange(0, 7).Draw(t, "manyfields") == 0 {
			// composites with many fields (tiny values): their shared digest / key lists cross the 23-, 255-byte
			// and 8- / 24- / 32-entry boundaries of the CBOR heads that describe them
			l = rapid.SampledFrom([]int{8, 9, 23, 24, 25, 31, 32, 33, 40}).Draw(t, "fields")
		}
		var e *VD
		if l > 0 {
			e = g.genVD(t, depth+1)
		}
		return &VD{K: k, N: rapid.Uint64Range(0, 50).Draw(t, "cn"), L: l, E: e}
	}
	return &VD{K: "u", N: 0}
}

var targetSel = []uint{0, 0, 0, 0, 1, 1, 2, 3, 4, 5, 7, 11}

func (g *GenCfg) genOp(t *rapid.T) Op {
	k := weighted(t, g.W, "op")
	op := Op{K: k}
	needsTarget := true
	switch k {
	case "commit", "reopen", "evict", "crashchk", "nop":
		needsTarget = false
	}
	if needsTarget {
		op.T = rapid.SampledFrom(targetSel).Draw(t, "t")
		a := rapid.IntRange(0, g.AcqW[0]+g.AcqW[1]+g.AcqW[2]-1).Draw(t, "acq")
		switch {
		case a < g.AcqW[0]:
			op.A = 0
		case a < g.AcqW[0]+g.AcqW[1]:
			op.A = 1
		default:
			op.A = 2
		}
	}
	switch k {
	case "app", "ins", "set", "mset", "badset", "badins":
		op.V = g.genVD(t, 0)
	case "appN", "msetN":
		op.V = g.genVD(t, 1)
		op.N = rapid.IntRange(1, g.MaxBulk).Draw(t, "n")
	case "setN", "mupdN":
		op.V = g.genVD(t, 9)
		op.N = rapid.IntRange(1, g.MaxBulk*4).Draw(t, "n")
		op.D = rapid.SampledFrom([]int{0, 2, 2}).Draw(t, "tiny")
	case "remN", "mremN":
		op.N = rapid.IntRange(1, g.MaxBulk).Draw(t, "n")
	case "commit", "reopen", "evict":
		op.N = rapid.SampledFrom([]int{1, 2, 3, 8}).Draw(t, "workers")
	}
	switch k {
	case "grow", "mgrow", "shrink", "mshrink", "reset", "mreset", "setN", "mupdN", "ins", "set", "rem", "get", "remN", "mset", "mget", "mhas", "mrem", "msetN", "mremN",
		"badget", "badset", "badins", "badrem", "mbadget", "mbadrem", "mbadhas", "styp", "reattach", "drop":
		op.P = rapid.Uint64Range(0, 1<<20).Draw(t, "p")
	}
	switch k {
	case "set", "rem", "mset", "mrem":
		if g.Keep > 0 && rapid.IntRange(0, 99).Draw(t, "keep") < g.Keep {
			op.D = 1
		}
	case "remN":
		op.D = rapid.SampledFrom([]int{0, 0, 2, 3}).Draw(t, "dir")
	case "drop":
		op.D = rapid.IntRange(0, 1).Draw(t, "blind")
	}
	if k == "mset" && rapid.IntRange(0, 3).Draw(t, "upd") == 0 {
		op.A = 3 // update a present key
	}
	return op
}

func (g *GenCfg) genCase(t *rapid.T, prop string) *Case {
	c := &Case{Prop: prop}
	if g.SlabAny && rapid.IntRange(0, 3).Draw(t, "slabany") == 0 {
		c.Cfg.Slab = rapid.Uint32Range(256, 32768).Draw(t, "slabu")
	} else if !g.SlabAny && len(g.Slabs) > 1 && rapid.IntRange(0, 5).Draw(t, "slabq") == 0 {
		// quick tier: every sixth case at an arbitrary (odd, even, non-power-of-two) size that is still cheap
		c.Cfg.Slab = rapid.Uint32Range(256, 2100).Draw(t, "slabu")
	} else {
		c.Cfg.Slab = rapid.SampledFrom(g.Slabs).Draw(t, "slab")
	}
	if len(g.Keys) > 0 {
		c.Cfg.Keys = rapid.SampledFrom(g.Keys).Draw(t, "keys")
	}
	if g.DigRoots {
		c.Cfg.Roots = []RootSpec{{K: "map", Addr: 1, TI: 2, Dig: genDigSpec(t)}}
	} else {
		c.Cfg.Roots = append([]RootSpec(nil), g.Roots[rapid.IntRange(0, len(g.Roots)-1).Draw(t, "roots")]...)
		if g.DigRootsPct > 0 && rapid.IntRange(0, 99).Draw(t, "digroots") < g.DigRootsPct {
			for i := range c.Cfg.Roots {
				if c.Cfg.Roots[i].K == "map" {
					c.Cfg.Roots[i].Dig = genDigSpec(t)
				}
			}
		}
	}
	if len(g.CollLimits) > 0 {
		c.Cfg.CollSet = true
		c.Cfg.CollLimit = rapid.SampledFrom(g.CollLimits).Draw(t, "colllimit")
	}
	if g.NondetPct > 0 && rapid.IntRange(0, 99).Draw(t, "nondet") < g.NondetPct {
		c.Cfg.NondetCommit = true
	}
	if g.HipGroupsPct > 0 && rapid.IntRange(0, 99).Draw(t, "hipgroups") < g.HipGroupsPct {
		// genuine first-level collisions under the default digester; the limit stays at 255 and groups stay
		// far below it, so no refusal can occur (refusals are C12's business, with generated digesters)
		c.Cfg.HipGroups = rapid.SampledFrom([]int{4, 4, 64}).Draw(t, "hipg")
		c.Cfg.CollSet, c.Cfg.CollLimit = false, 0
	}
	c.Cfg.Workers = rapid.SampledFrom([]int{1, 2, 3, 8}).Draw(t, "cfgworkers")
	c.Cfg.LedgerAPI = rapid.IntRange(0, 3).Draw(t, "ledgerapi") == 0
	n := rapid.IntRange(g.MinOps, g.MaxOps).Draw(t, "nops")
	c.Ops = make([]Op, n)
	for i := range c.Ops {
		c.Ops[i] = g.genOp(t)
	}
	return c
}

// genDigSpec draws an adversarial digester.
func genDigSpec(t *rapid.T) *DigSpec {
	d := &DigSpec{Levels: rapid.IntRange(1, 4).Draw(t, "levels"), Salt: rapid.Uint64Range(0, 1000).Draw(t, "salt")}
	// 50 / 1000: big maps with many small collision groups spread over the tree
	alphas := []uint64{1, 2, 3, 5, 0, 50, 1000}
	for i := 0; i < d.Levels; i++ {
		d.Alpha[i] = rapid.SampledFrom(alphas).Draw(t, "alpha")
		d.Top[i] = rapid.IntRange(0, 3).Draw(t, "top") == 0
	}
	return d
}

var quickSlabs = []uint32{256, 256, 257, 300, 512, 1024}
var allSlabs = []uint32{256, 257, 300, 511, 512, 513, 1000, 1024, 1025, 2047, 4096, 8191, 32768}
