package harness

// oracle.go: independent structural oracles over the public Slab API and the
// raw register bytes: well-formedness and size band (C05), reported size ==
// written bytes (C06), round trip and header flags (C07), leaks / dangling /
// double ownership (C09), inline rule and stable identifiers (C10).

import (
	"bytes"
	"encoding/binary"
	"fmt"
	"sort"

	"github.com/onflow/atree"
)

// SI is one slab reached by the walker.
type SI struct {
	ID          atree.SlabID
	Slab        atree.Slab
	Enc         []byte
	Reg         *Reg
	Kind        int
	ViaIndex    bool // referenced from an index slab (i.e. a non-root slab of a tree)
	HasExtra    bool
	Parent      *SI
	Kids        []*SI // children in index order (index slabs) or reference order (data slabs)
	NestedGroup bool  // external collision group of a map that is INLINED in the parent slab (not of the slab's own map)
	Count       uint64
}

// Inl describes one nested container found inside a data slab.
type Inl struct {
	VID       atree.ValueID
	Inlined   bool
	Size      uint32 // ByteSize of the inlined slab, or of the standalone root slab
	Single    bool   // occupies one slab
	SlotLimit uint32
	IsMap     bool
}

type Walk struct {
	st                 atree.SlabStorage
	Slabs              map[atree.SlabID]*SI
	Order              []*SI
	Nested             map[atree.ValueID]*Inl
	Compact            bool // relaxed comparisons for compact maps (R7)
	maxArr, maxMapElem uint32
}

func slabKind(s atree.Slab) (kind int, hasExtra bool) {
	switch x := s.(type) {
	case *atree.ArrayDataSlab:
		return kArrData, x.ExtraData() != nil
	case *atree.ArrayMetaDataSlab:
		return kArrMeta, x.ExtraData() != nil
	case *atree.MapDataSlab:
		return kMapData, x.ExtraData() != nil
	case *atree.MapMetaDataSlab:
		return kMapMeta, x.ExtraData() != nil
	case *atree.StorableSlab:
		return kStorable, false
	}
	return 0, false
}

func newWalk(st atree.SlabStorage) *Walk {
	return &Walk{st: st, Slabs: map[atree.SlabID]*SI{}, Nested: map[atree.ValueID]*Inl{},
		maxArr: atree.MaxInlineArrayElementSize(), maxMapElem: atree.MaxInlineMapElementSize()}
}

// visit walks the slab tree under id.
func (w *Walk) visit(id atree.SlabID, parent *SI, viaIndex bool) (*SI, error) {
	if prev, dup := w.Slabs[id]; dup {
		p := "a root"
		if prev.Parent != nil {
			p = prev.Parent.ID.String()
		}
		q := "a root"
		if parent != nil {
			q = parent.ID.String()
		}
		return nil, fmt.Errorf("slab %s is referenced twice (from %s and from %s)", id, p, q)
	}
	s, found, err := w.st.Retrieve(id)
	if err != nil {
		return nil, fmt.Errorf("retrieving slab %s failed: %v", id, err)
	}
	if !found {
		if parent != nil {
			return nil, fmt.Errorf("dangling reference: slab %s (referenced from %s) is not in storage", id, parent.ID)
		}
		return nil, fmt.Errorf("root slab %s is not in storage", id)
	}
	if s.SlabID() != id {
		return nil, fmt.Errorf("slab stored under %s says its id is %s", id, s.SlabID())
	}
	si := &SI{ID: id, Slab: s, Parent: parent, ViaIndex: viaIndex}
	si.Kind, si.HasExtra = slabKind(s)
	if si.Kind == 0 {
		return nil, fmt.Errorf("slab %s has unexpected type %T", id, s)
	}
	if si.Kind == kMapData && !si.HasExtra && !viaIndex {
		si.Kind = kCollGroup
	}
	w.Slabs[id] = si
	w.Order = append(w.Order, si)
	if parent != nil {
		parent.Kids = append(parent.Kids, si)
		if parent.ID.Address() != id.Address() {
			return nil, fmt.Errorf("slab %s is referenced from %s which has another owner", id, parent.ID)
		}
	}
	switch si.Kind {
	case kArrMeta, kMapMeta:
		for _, c := range s.ChildStorables() {
			cid, ok := c.(atree.SlabIDStorable)
			if !ok {
				return nil, fmt.Errorf("index slab %s has a child storable of type %T", id, c)
			}
			k, err := w.visit(atree.SlabID(cid), si, true)
			if err != nil {
				return nil, err
			}
			if (si.Kind == kArrMeta) != (k.Kind == kArrData || k.Kind == kArrMeta) || k.HasExtra {
				return nil, fmt.Errorf("index slab %s has child %s of kind %s (root=%v)", id, k.ID, kindName[k.Kind], k.HasExtra)
			}
			si.Count += k.Count
		}
	case kArrData:
		elems := s.ChildStorables()
		si.Count = uint64(len(elems))
		for _, el := range elems {
			if err := w.element(si, el, w.maxArr); err != nil {
				return nil, err
			}
		}
	case kMapData, kCollGroup:
		n, err := w.mapItems(si, s.ChildStorables(), false)
		if err != nil {
			return nil, err
		}
		si.Count += n
	case kStorable:
		for _, el := range s.ChildStorables() {
			if err := w.element(si, el, 0); err != nil {
				return nil, err
			}
		}
	}
	return si, nil
}

// mapItems walks the flattened child storables of a map data slab or of an inlined map: key/value pairs,
// with an external collision group appearing as a single slab reference.  Returns the number of pairs.
func (w *Walk) mapItems(owner *SI, items []atree.Storable, nested bool) (uint64, error) {
	n := uint64(0)
	for i := 0; i < len(items); {
		if ref, ok := items[i].(atree.SlabIDStorable); ok {
			// either an external collision group (one item) or an externalised key (then a value follows)
			t, found, err := w.st.Retrieve(atree.SlabID(ref))
			if err != nil {
				return 0, fmt.Errorf("retrieving slab %s failed: %v", atree.SlabID(ref), err)
			}
			if !found {
				return 0, fmt.Errorf("dangling reference: slab %s (referenced from %s) is not in storage", atree.SlabID(ref), owner.ID)
			}
			if md, isMap := t.(*atree.MapDataSlab); isMap && md.ExtraData() == nil {
				g, err := w.visit(atree.SlabID(ref), owner, false)
				if err != nil {
					return 0, err
				}
				g.NestedGroup = nested
				i++
				continue
			}
		}
		if i+1 >= len(items) {
			return 0, fmt.Errorf("map slab %s: key without value among its child storables", owner.ID)
		}
		k, v := items[i], items[i+1]
		if err := w.element(owner, k, 0); err != nil {
			return 0, err
		}
		limit := uint32(0)
		if w.maxMapElem > k.ByteSize()+1 {
			limit = w.maxMapElem - k.ByteSize() - 1
		}
		if err := w.element(owner, v, limit); err != nil {
			return 0, err
		}
		n++
		i += 2
	}
	return n, nil
}

// element follows the references inside one element storable (wrappers, inlined slabs).
func (w *Walk) element(owner *SI, el atree.Storable, slotLimit uint32) error {
	wrap := uint32(0)
	if ws, ok := el.(atree.WrapperStorable); ok {
		in := ws.UnwrapAtreeStorable()
		wrap = el.ByteSize() - in.ByteSize()
		el = in
	}
	lim := uint32(0)
	if slotLimit > wrap {
		lim = slotLimit - wrap
	}
	switch x := el.(type) {
	case atree.SlabIDStorable:
		k, err := w.visit(atree.SlabID(x), owner, false)
		if err != nil {
			return err
		}
		if k.HasExtra { // standalone nested container
			vid := slabIDToValueID(k.ID)
			if _, dup := w.Nested[vid]; dup {
				return fmt.Errorf("container %s occurs twice", vid)
			}
			w.Nested[vid] = &Inl{VID: vid, Inlined: false, Size: k.Slab.ByteSize(), Single: k.Kind == kArrData || k.Kind == kMapData, SlotLimit: lim, IsMap: k.Kind == kMapData || k.Kind == kMapMeta}
		} else if k.Kind != kStorable {
			return fmt.Errorf("element of %s references slab %s which is neither a container root nor a large value (%s)", owner.ID, k.ID, kindName[k.Kind])
		}
	case atree.Slab: // inlined array / map
		kind, hasExtra := slabKind(x)
		if !hasExtra || (kind != kArrData && kind != kMapData) {
			return fmt.Errorf("slab %s holds an inlined element of kind %s (root=%v)", owner.ID, kindName[kind], hasExtra)
		}
		vid := slabIDToValueID(x.SlabID())
		if _, dup := w.Nested[vid]; dup {
			return fmt.Errorf("container %s occurs twice", vid)
		}
		if x.SlabID().Address() != owner.ID.Address() {
			return fmt.Errorf("inlined container %s inside %s has another owner", vid, owner.ID)
		}
		w.Nested[vid] = &Inl{VID: vid, Inlined: true, Size: x.ByteSize(), Single: true, SlotLimit: lim, IsMap: kind == kMapData}
		items := x.ChildStorables()
		if kind == kArrData {
			for _, c := range items {
				if err := w.element(owner, c, w.maxArr); err != nil {
					return err
				}
			}
		} else {
			if _, err := w.mapItems(owner, items, true); err != nil {
				return err
			}
		}
	}
	return nil
}

// encodeAll encodes every visited slab and parses the result.
func (w *Walk) encodeAll() error {
	for _, si := range w.Order {
		b, err := atree.EncodeSlab(si.Slab, EncMode)
		if err != nil {
			return fmt.Errorf("encoding slab %s failed: %v", si.ID, err)
		}
		si.Enc = b
		r, err := parseRegister(b)
		if err != nil {
			return fmt.Errorf("register of slab %s does not follow the documented layout: %v (%x)", si.ID, err, b)
		}
		si.Reg = r
	}
	return nil
}

func band(s uint32) (min, max uint32) { return s / 2, uint32(uint64(s) * 3 / 2) }

// checkTree: C05 on all visited slabs.
func (w *Walk) checkTree(slabSize uint32) error {
	min, max := band(slabSize)
	maxKey := atree.MaxInlineMapKeySize()
	for _, si := range w.Order {
		r := si.Reg
		want := si.Kind
		if r.Kind != want {
			return fmt.Errorf("slab %s is a %s but its register says %s", si.ID, kindName[want], kindName[r.Kind])
		}
		size := si.Slab.ByteSize()
		limited := si.Kind == kArrData || si.Kind == kArrMeta || si.Kind == kMapData || si.Kind == kMapMeta
		if limited {
			if size > max {
				return fmt.Errorf("%s slab %s reports %d bytes, more than 1.5x the slab size %d", kindName[si.Kind], si.ID, size, slabSize)
			}
			if si.ViaIndex && size < min {
				return fmt.Errorf("non-root %s slab %s reports %d bytes, less than half the slab size %d", kindName[si.Kind], si.ID, size, slabSize)
			}
		}
		switch si.Kind {
		case kArrMeta, kMapMeta:
			if !si.ViaIndex && len(si.Kids) < 2 {
				return fmt.Errorf("root index slab %s has %d children", si.ID, len(si.Kids))
			}
			if len(si.Kids) == 0 {
				return fmt.Errorf("index slab %s has no children", si.ID)
			}
			if len(r.Children) != len(si.Kids) {
				return fmt.Errorf("index slab %s: register lists %d children, slab has %d", si.ID, len(r.Children), len(si.Kids))
			}
			addr := si.ID.Address()
			if !bytes.Equal(r.ChildAddr[:], addr[:]) {
				return fmt.Errorf("index slab %s: shared child address %x differs from owner %x", si.ID, r.ChildAddr, addr)
			}
			for i, k := range si.Kids {
				h := r.Children[i]
				idx := k.ID.Index()
				if !bytes.Equal(h.Index[:], idx[:]) {
					return fmt.Errorf("index slab %s child %d: header index %x, child is %s", si.ID, i, h.Index, k.ID)
				}
				if uint32(h.Size) != k.Slab.ByteSize() {
					return fmt.Errorf("index slab %s child %d (%s): header size %d, child reports %d", si.ID, i, k.ID, h.Size, k.Slab.ByteSize())
				}
				if si.Kind == kArrMeta {
					if uint64(h.Count) != k.Count {
						return fmt.Errorf("index slab %s child %d (%s): header count %d, child holds %d", si.ID, i, k.ID, h.Count, k.Count)
					}
				} else {
					fk, ok := firstKeyOf(k)
					if !ok {
						return fmt.Errorf("map slab %s (child of %s) is empty", k.ID, si.ID)
					}
					if h.FirstKey != fk {
						return fmt.Errorf("index slab %s child %d (%s): header first digest %d, child starts at %d", si.ID, i, k.ID, h.FirstKey, fk)
					}
					if i > 0 && r.Children[i-1].FirstKey >= h.FirstKey {
						return fmt.Errorf("index slab %s: first digests of children %d and %d are not ascending", si.ID, i-1, i)
					}
				}
			}
		case kArrData:
			elems := si.Slab.ChildStorables()
			if len(r.ElemLens) != len(elems) {
				return fmt.Errorf("array slab %s: register holds %d elements, slab %d", si.ID, len(r.ElemLens), len(elems))
			}
			for i, el := range elems {
				if el.ByteSize() > w.maxArr {
					return fmt.Errorf("array slab %s element %d reports %d bytes, over the element limit %d", si.ID, i, el.ByteSize(), w.maxArr)
				}
			}
			if size > slabSize && len(elems) < 2 {
				return fmt.Errorf("array slab %s is over the slab size (%d) with %d element(s)", si.ID, size, len(elems))
			}
		case kMapData, kCollGroup:
			if err := checkElems(si, r.Map, 0, maxKey, w.maxMapElem, si.Kind == kCollGroup); err != nil {
				return err
			}
			if si.Kind == kMapData && size > slabSize && len(r.Map.Elems) < 2 {
				return fmt.Errorf("map slab %s is over the slab size (%d) with %d element(s)", si.ID, size, len(r.Map.Elems))
			}
		}
	}
	// sibling links and digest order across leaves, per container tree
	for _, si := range w.Order {
		if si.ViaIndex || (si.Kind != kArrMeta && si.Kind != kMapMeta) {
			if !si.ViaIndex && (si.Kind == kArrData || si.Kind == kMapData) && si.Reg.HasNext {
				return fmt.Errorf("root data slab %s has a sibling link", si.ID)
			}
			continue
		}
		var leaves []*SI
		var rec func(x *SI)
		rec = func(x *SI) {
			if x.Kind == kArrMeta || x.Kind == kMapMeta {
				for _, k := range x.Kids {
					rec(k)
				}
				return
			}
			leaves = append(leaves, x)
		}
		rec(si)
		for i, lf := range leaves {
			if i+1 < len(leaves) {
				var want [16]byte
				a, x := leaves[i+1].ID.Address(), leaves[i+1].ID.Index()
				copy(want[:], a[:])
				copy(want[8:], x[:])
				if !lf.Reg.HasNext || lf.Reg.Next != want {
					return fmt.Errorf("leaf %s: sibling link %x (present=%v), next leaf in index order is %s", lf.ID, lf.Reg.Next, lf.Reg.HasNext, leaves[i+1].ID)
				}
				if lf.Kind == kMapData {
					a, b := lf.Reg.Map.HKeys, leaves[i+1].Reg.Map.HKeys
					if len(a) > 0 && len(b) > 0 && a[len(a)-1] >= b[0] {
						return fmt.Errorf("leaves %s and %s: digests not ascending across the boundary", lf.ID, leaves[i+1].ID)
					}
				}
			} else if lf.Reg.HasNext {
				return fmt.Errorf("last leaf %s has a sibling link", lf.ID)
			}
		}
	}
	return nil
}

func firstKeyOf(k *SI) (uint64, bool) {
	switch k.Kind {
	case kMapData:
		if len(k.Reg.Map.HKeys) == 0 {
			return 0, false
		}
		return k.Reg.Map.HKeys[0], true
	case kMapMeta:
		if len(k.Reg.Children) == 0 {
			return 0, false
		}
		return k.Reg.Children[0].FirstKey, true
	}
	return 0, false
}

func checkElems(si *SI, en *ElemsNode, depth int, maxKey, maxElem uint32, inExternal bool) error {
	for i := 1; i < len(en.HKeys); i++ {
		if en.HKeys[i-1] >= en.HKeys[i] {
			return fmt.Errorf("map slab %s: digests at level %d are not sorted and unique (%d then %d)", si.ID, en.Level, en.HKeys[i-1], en.HKeys[i])
		}
	}
	for i := range en.Elems {
		el := &en.Elems[i]
		switch el.Kind {
		case elSingle:
			if uint32(el.KeyLen) > maxKey {
				return fmt.Errorf("map slab %s: key of %d bytes over the key limit %d", si.ID, el.KeyLen, maxKey)
			}
			if uint32(el.Len) > maxElem {
				return fmt.Errorf("map slab %s: element of %d bytes over the element limit %d", si.ID, el.Len, maxElem)
			}
		case elInlineGroup:
			if depth == 0 && !inExternal && uint32(el.Len) > maxElem {
				return fmt.Errorf("map slab %s: inline collision group of %d bytes over the element limit %d", si.ID, el.Len, maxElem)
			}
			if len(el.Group.Elems) < 1 {
				return fmt.Errorf("map slab %s: empty inline collision group", si.ID)
			}
			if err := checkElems(si, el.Group, depth+1, maxKey, maxElem, inExternal); err != nil {
				return err
			}
		}
	}
	return nil
}

// checkSizes: C06 on all visited slabs.
func (w *Walk) checkSizes() error {
	for _, si := range w.Order {
		r := si.Reg
		reported := int(si.Slab.ByteSize())
		written := len(si.Enc) - r.ExtraLen - r.InlExtraLen
		saved := 0
		if (si.Kind == kArrData || si.Kind == kMapData) && si.ViaIndex && !r.HasNext {
			saved = 16
		}
		if si.Kind == kCollGroup && !r.HasNext {
			saved = 16 // external groups reserve the sibling link they never have
		}
		if w.Compact {
			if written+saved > reported {
				return fmt.Errorf("slab %s (%s) reports %d bytes but %d were written (+%d omitted link)", si.ID, kindName[si.Kind], reported, written, saved)
			}
		} else if written+saved != reported {
			return fmt.Errorf("slab %s (%s) reports %d bytes but %d were written (+%d for an omitted sibling link; extra data %d, inlined extra data %d)", si.ID, kindName[si.Kind], reported, written, saved, r.ExtraLen, r.InlExtraLen)
		}
		// per element: reported element size == encoded length
		if si.Kind == kArrData {
			for i, el := range si.Slab.ChildStorables() {
				if err := w.elemSize(si, el, r.ElemLens[i], fmt.Sprintf("element %d", i)); err != nil {
					return err
				}
			}
		}
		// decoded slab reports the same size
		d, err := atree.DecodeSlab(si.ID, si.Enc, DecMode, DecodeStorable, DecodeTypeInfo)
		if err != nil {
			return fmt.Errorf("register of slab %s cannot be decoded: %v", si.ID, err)
		}
		if d.ByteSize() != si.Slab.ByteSize() {
			return fmt.Errorf("slab %s reports %d bytes in memory but %d after decoding its register", si.ID, si.Slab.ByteSize(), d.ByteSize())
		}
	}
	return nil
}

func (w *Walk) elemSize(si *SI, el atree.Storable, encLen int, what string) error {
	rep := int(el.ByteSize())
	if w.Compact {
		if encLen > rep {
			return fmt.Errorf("slab %s %s (%T) reports %d bytes, encoded as %d", si.ID, what, el, rep, encLen)
		}
		return nil
	}
	if encLen != rep {
		return fmt.Errorf("slab %s %s (%T) reports %d bytes, encoded as %d", si.ID, what, el, rep, encLen)
	}
	return nil
}

func hasRef(items []atree.Storable) bool {
	for _, s := range items {
		if _, ok := s.(atree.SlabIDStorable); ok {
			return true
		}
		if hasRef(s.ChildStorables()) {
			return true
		}
	}
	return false
}

// deepEqual compares two storables through the public surface.
func deepEqual(a, b atree.Storable, relaxed bool) error {
	if as, ok := a.(atree.Slab); ok {
		bs, ok := b.(atree.Slab)
		if !ok {
			return fmt.Errorf("inlined %T vs %T", a, b)
		}
		ka, ea := slabKind(as)
		kb, eb := slabKind(bs)
		if ka != kb || ea != eb {
			return fmt.Errorf("inlined slab kind %s/%v vs %s/%v", kindName[ka], ea, kindName[kb], eb)
		}
		if as.SlabID() != bs.SlabID() {
			return fmt.Errorf("inlined slab id %s vs %s", as.SlabID(), bs.SlabID())
		}
		if err := extraEqual(as, bs, relaxed && ka == kMapData); err != nil {
			return err
		}
		if as.ByteSize() != bs.ByteSize() {
			return fmt.Errorf("inlined slab %s size %d vs %d", as.SlabID(), as.ByteSize(), bs.ByteSize())
		}
		ca, cb := as.ChildStorables(), bs.ChildStorables()
		err := listEqual(ca, cb, relaxed)
		if err != nil && relaxed && ka == kMapData {
			// compact composite maps may come back in the shared order of their type: compare as a set of pairs
			return pairsEqualAsSet(ca, cb)
		}
		return err
	}
	if wa, ok := a.(SomeSt); ok {
		wb, ok := b.(SomeSt)
		if !ok {
			return fmt.Errorf("wrapper vs %T", b)
		}
		return deepEqual(wa.S, wb.S, relaxed)
	}
	if !storableEqual(a, b) {
		return fmt.Errorf("%v (%T) vs %v (%T)", a, a, b, b)
	}
	return nil
}

func listEqual(ca, cb []atree.Storable, relaxed bool) error {
	if len(ca) != len(cb) {
		return fmt.Errorf("%d vs %d child storables", len(ca), len(cb))
	}
	for i := range ca {
		if err := deepEqual(ca[i], cb[i], relaxed); err != nil {
			return fmt.Errorf("child %d: %v", i, err)
		}
	}
	return nil
}

func pairsEqualAsSet(ca, cb []atree.Storable) error {
	if len(ca) != len(cb) || len(ca)%2 != 0 {
		return fmt.Errorf("%d vs %d child storables", len(ca), len(cb))
	}
	idx := map[string]atree.Storable{}
	for i := 0; i+1 < len(cb); i += 2 {
		k, err := encodeStorable(cb[i])
		if err != nil {
			return err
		}
		idx[string(k)] = cb[i+1]
	}
	for i := 0; i+1 < len(ca); i += 2 {
		k, err := encodeStorable(ca[i])
		if err != nil {
			return err
		}
		v, ok := idx[string(k)]
		if !ok {
			return fmt.Errorf("key %v missing after decoding", ca[i])
		}
		if err := deepEqual(ca[i+1], v, true); err != nil {
			return fmt.Errorf("value of key %v: %v", ca[i], err)
		}
	}
	return nil
}

func extraEqual(a, b atree.Slab, relaxSeed bool) error {
	switch x := a.(type) {
	case atree.ArraySlab:
		y := b.(atree.ArraySlab)
		ea, eb := x.ExtraData(), y.ExtraData()
		if (ea == nil) != (eb == nil) {
			return fmt.Errorf("extra data presence differs")
		}
		if ea != nil && !CompareTI(ea.TypeInfo, eb.TypeInfo) {
			return fmt.Errorf("array type %v vs %v", ea.TypeInfo, eb.TypeInfo)
		}
	case atree.MapSlab:
		y := b.(atree.MapSlab)
		ea, eb := x.ExtraData(), y.ExtraData()
		if (ea == nil) != (eb == nil) {
			return fmt.Errorf("extra data presence differs")
		}
		if ea != nil {
			if !CompareTI(ea.TypeInfo, eb.TypeInfo) {
				return fmt.Errorf("map type %v vs %v", ea.TypeInfo, eb.TypeInfo)
			}
			if ea.Count != eb.Count {
				return fmt.Errorf("map count %d vs %d", ea.Count, eb.Count)
			}
			if !relaxSeed && ea.Seed != eb.Seed {
				return fmt.Errorf("map seed %d vs %d", ea.Seed, eb.Seed)
			}
		}
	}
	return nil
}

// checkRoundTrip: C07 for one slab and its register.
func checkRoundTrip(id atree.SlabID, s atree.Slab, enc []byte, viaIndex bool, kind int, relaxed bool) error {
	d, err := atree.DecodeSlab(id, enc, DecMode, DecodeStorable, DecodeTypeInfo)
	if err != nil {
		return fmt.Errorf("register of slab %s cannot be decoded: %v", id, err)
	}
	enc2, err := atree.EncodeSlab(d, EncMode)
	if err != nil {
		return fmt.Errorf("decoded slab %s cannot be re-encoded: %v", id, err)
	}
	if !bytes.Equal(enc, enc2) {
		return fmt.Errorf("slab %s: decode+encode changes the register:\n  %x\n  %x", id, enc, enc2)
	}
	if fmt.Sprintf("%T", d) != fmt.Sprintf("%T", s) {
		return fmt.Errorf("slab %s decodes to %T, was %T", id, d, s)
	}
	if d.SlabID() != id {
		return fmt.Errorf("slab %s decodes with id %s", id, d.SlabID())
	}
	if d.ByteSize() != s.ByteSize() {
		return fmt.Errorf("slab %s decodes with size %d, was %d", id, d.ByteSize(), s.ByteSize())
	}
	if err := extraEqual(s, d, false); err != nil {
		return fmt.Errorf("slab %s after decoding: %v", id, err)
	}
	if err := listEqual(s.ChildStorables(), d.ChildStorables(), relaxed); err != nil {
		return fmt.Errorf("slab %s after decoding: %v", id, err)
	}
	if !relaxed && s.String() != d.String() {
		return fmt.Errorf("slab %s after decoding prints differently:\n  %s\n  %s", id, s.String(), d.String())
	}
	// header flags readable from the raw bytes
	isRoot, err1 := atree.IsRootOfAnObject(enc)
	hasPtr, err2 := atree.HasPointers(enc)
	hasLimit, err3 := atree.HasSizeLimit(enc)
	if err1 != nil || err2 != nil || err3 != nil {
		return fmt.Errorf("slab %s: header queries failed: %v %v %v", id, err1, err2, err3)
	}
	_, hasExtra := slabKind(s)
	if isRoot != hasExtra {
		return fmt.Errorf("slab %s: root flag %v but extra data present=%v", id, isRoot, hasExtra)
	}
	wantPtr := false
	if kind != kArrMeta && kind != kMapMeta {
		wantPtr = hasRef(s.ChildStorables())
	}
	if hasPtr != wantPtr {
		return fmt.Errorf("slab %s (%s): has-pointers flag %v but references present=%v", id, kindName[kind], hasPtr, wantPtr)
	}
	wantLimit := kind != kStorable && kind != kCollGroup
	if hasLimit != wantLimit {
		return fmt.Errorf("slab %s (%s): size-limit flag %v, expected %v", id, kindName[kind], hasLimit, wantLimit)
	}
	return nil
}

// ---------------------------------------------------------------- engine glue

// walkRoots walks all roots of the engine on its live storage.
func (e *Engine) walkRoots() (*Walk, error) {
	w := newWalk(e.St)
	w.Compact = e.Stats.Has("composite_map")
	for _, r := range e.Roots {
		si, err := w.visit(r.Root, nil, false)
		if err != nil {
			return nil, e.viol("%v", err)
		}
		if !si.HasExtra {
			return nil, e.viol("root slab %s of root#%d carries no extra data", r.Root, r.ID)
		}
	}
	return w, nil
}

func (e *Engine) checkStructure() error {
	w, err := e.walkRoots()
	if err != nil {
		return err
	}
	if e.Or.Tree || e.Or.Sizes || e.Or.RoundTrip {
		if err := w.encodeAll(); err != nil {
			return e.viol("%v", err)
		}
	}
	e.noteStructure(w)
	if e.Or.Tree {
		if err := w.checkTree(e.Cfg.Slab); err != nil {
			return e.viol("%v", err)
		}
	}
	if e.Or.Sizes {
		if err := w.checkSizes(); err != nil {
			return e.viol("%v", err)
		}
	}
	if e.Or.RoundTrip {
		for _, si := range w.Order {
			if err := checkRoundTrip(si.ID, si.Slab, si.Enc, si.ViaIndex, si.Kind, w.Compact); err != nil {
				return e.viol("%v", err)
			}
		}
	}
	if e.Or.Health {
		if err := e.checkHealth(w); err != nil {
			return err
		}
	}
	if e.Or.Inline {
		if err := e.checkInline(w); err != nil {
			return err
		}
	}
	return nil
}

// noteStructure derives labels from the walk.
func (e *Engine) noteStructure(w *Walk) {
	min, max := band(e.Cfg.Slab)
	for _, si := range w.Order {
		switch si.Kind {
		case kArrMeta, kMapMeta:
			if len(si.Kids) >= 32 {
				e.Stats.label("index_slab>=32_children")
			}
			if si.ViaIndex {
				e.Stats.label("three_levels")
			}
		case kCollGroup:
			e.Stats.label("external_collision_group")
		case kStorable:
			e.Stats.label("large_value_slab")
		}
		if si.Reg != nil {
			sz := si.Slab.ByteSize()
			lim := si.Kind == kArrData || si.Kind == kArrMeta || si.Kind == kMapData || si.Kind == kMapMeta
			if lim && (sz+16 >= max || (si.ViaIndex && sz <= min+16)) {
				e.Stats.label("slab_near_band_edge")
			}
			if si.Reg.HasInl {
				e.Stats.label("slab_with_inlined_child")
			}
			if (si.Kind == kArrData || si.Kind == kMapData) && si.ViaIndex && !si.Reg.HasNext {
				e.Stats.label("last_leaf_without_link")
			}
			if si.Reg.Map != nil {
				for i := range si.Reg.Map.Elems {
					if si.Reg.Map.Elems[i].Kind == elInlineGroup {
						e.Stats.label("inline_collision_group")
					}
				}
			}
		}
	}
	for _, in := range w.Nested {
		if in.Inlined {
			e.Stats.label("inlined_child")
			if in.Size+2 >= in.SlotLimit {
				e.Stats.label("inlined_child_near_limit")
			}
		} else {
			e.Stats.label("standalone_child")
		}
	}
}

// checkHealth: C09.
func (e *Engine) checkHealth(w *Walk) error {
	// everything the storage holds must have been reached from the roots
	inStorage := map[atree.SlabID]bool{}
	it, err := e.St.SlabIterator()
	if err != nil {
		return e.viol("slab iterator failed: %v", err)
	}
	for {
		id, s := it()
		if id == atree.SlabIDUndefined {
			break
		}
		if s != nil {
			inStorage[id] = true
		}
	}
	for _, id := range e.L.Keys() {
		_, found, err := e.St.Retrieve(id)
		if err != nil {
			return e.viol("retrieving committed slab %s failed: %v", id, err)
		}
		if found {
			inStorage[id] = true
		}
	}
	var ids []atree.SlabID
	for id := range inStorage {
		ids = append(ids, id)
	}
	sort.Slice(ids, func(i, j int) bool { return ids[i].Compare(ids[j]) < 0 })
	for _, id := range ids {
		if _, ok := w.Slabs[id]; !ok {
			s, _, _ := e.St.Retrieve(id)
			return e.viol("leaked slab: %s is in storage but not reachable from the %d live roots: %v", id, len(e.Roots), s)
		}
	}
	for id := range w.Slabs {
		if !inStorage[id] {
			return e.viol("slab %s is reachable but not listed by the storage", id)
		}
	}
	// right after a commit the ledger itself must hold exactly the reachable owned slabs
	if e.St.DeltasWithoutTempAddresses() == 0 {
		for _, id := range e.L.Keys() {
			if _, ok := w.Slabs[id]; !ok {
				return e.viol("leaked register: %s is in the ledger but not reachable from the %d live roots", id, len(e.Roots))
			}
		}
		for id := range w.Slabs {
			if _, ok := e.L.Regs[id]; !ok && !id.HasTempAddress() {
				return e.viol("slab %s is reachable but has no register although nothing is pending", id)
			}
		}
		e.Stats.label("ledger_equals_reachable_checked")
	}
	roots, err := atree.CheckStorageHealth(e.St, len(e.Roots))
	if err != nil {
		return e.viol("in-repo health check rejects a storage the independent walk finds healthy: %v", err)
	}
	if len(roots) != len(e.Roots) {
		return e.viol("in-repo health check returns %d roots, there are %d", len(roots), len(e.Roots))
	}
	for _, r := range e.Roots {
		if _, ok := roots[r.Root]; !ok {
			return e.viol("in-repo health check does not list root %s", r.Root)
		}
	}
	return nil
}

// checkInline: C10 — inline rule and identifiers of every nested container.
func (e *Engine) checkInline(w *Walk) error {
	for _, n := range e.allNodes() {
		if n.Parent == nil {
			continue
		}
		in, ok := w.Nested[n.VID]
		if !ok {
			return e.viol("nested container #%d (value id %s) is not found inside its parent", n.ID, n.VID)
		}
		if in.IsMap != n.IsMap {
			return e.viol("nested container #%d changed kind", n.ID)
		}
		inlinedSize := in.Size
		if !in.Inlined {
			inlinedSize += 12 // inlined prefix is 12 bytes longer than the root prefix (arrays 17 vs 5, maps 14 vs 2)
		}
		should := in.Single && inlinedSize <= in.SlotLimit
		if in.Inlined != should {
			return e.viol("nested container #%d (value id %s): inlined=%v but single-slab=%v, inlined size %d, slot limit %d", n.ID, n.VID, in.Inlined, in.Single, inlinedSize, in.SlotLimit)
		}
		if n.HasHandle() {
			var hin bool
			var sid atree.SlabID
			var vid atree.ValueID
			if n.IsMap {
				hin, sid, vid = n.HM.Inlined(), n.HM.SlabID(), n.HM.ValueID()
			} else {
				hin, sid, vid = n.HA.Inlined(), n.HA.SlabID(), n.HA.ValueID()
			}
			if vid != n.VID {
				return e.viol("nested container #%d: value id changed from %s to %s", n.ID, n.VID, vid)
			}
			if hin != in.Inlined {
				return e.viol("nested container #%d: handle says inlined=%v, parent holds it inlined=%v", n.ID, hin, in.Inlined)
			}
			if (sid == atree.SlabIDUndefined) != hin {
				return e.viol("nested container #%d: slab id %s with inlined=%v", n.ID, sid, hin)
			}
			// the public predicate agrees with the rule, at the slot limit and one byte either side of the container's size
			for _, lim := range []uint32{in.SlotLimit, inlinedSize, inlinedSize - 1} {
				var can bool
				if n.IsMap {
					can = n.HM.Inlinable(lim)
				} else {
					can = n.HA.Inlinable(lim)
				}
				if want := in.Single && inlinedSize <= lim; can != want {
					return e.viol("nested container #%d: Inlinable(%d)=%v but single-slab=%v and inlined size %d", n.ID, lim, can, in.Single, inlinedSize)
				}
			}
			if !hin && slabIDToValueID(sid) != n.VID {
				return e.viol("nested container #%d: slab id %s does not match value id %s", n.ID, sid, n.VID)
			}
		}
	}
	if len(w.Nested) != e.nestedCount() {
		return e.viol("storage holds %d nested containers, model has %d", len(w.Nested), e.nestedCount())
	}
	return nil
}

func (e *Engine) nestedCount() int {
	c := 0
	for _, n := range e.allNodes() {
		if n.Parent != nil {
			c++
		}
	}
	return c
}

// checkRegisters: C07 (and C06's decoded-size clause) on every committed register.
func (e *Engine) checkRegisters() error {
	relaxed := e.Stats.Has("composite_map")
	st := NewStorage(e.L)
	for _, id := range e.L.Keys() {
		b := e.L.Regs[id]
		s, found, err := st.Retrieve(id)
		if err != nil || !found {
			return e.viol("committed register %s cannot be loaded: %v", id, err)
		}
		enc2, err := atree.EncodeSlab(s, EncMode)
		if err != nil {
			return e.viol("decoded slab %s cannot be re-encoded: %v", id, err)
		}
		if !bytes.Equal(b, enc2) {
			return e.viol("register %s is not canonical: decode+encode gives\n  %x\ninstead of\n  %x", id, enc2, b)
		}
		r, err := parseRegister(b)
		if err != nil {
			return e.viol("register %s does not follow the documented layout: %v", id, err)
		}
		// the live slab that produced it must match the decoded one
		live, found, err := e.St.Retrieve(id)
		if err != nil || !found {
			return e.viol("register %s has no live slab: %v", id, err)
		}
		kind, hasExtra := slabKind(live)
		if kind == kMapData && !hasExtra && r.Kind == kCollGroup {
			kind = kCollGroup
		}
		if err := checkRoundTrip(id, live, b, false, kind, relaxed); err != nil {
			return e.viol("%v", err)
		}
		e.Stats.Add("registers_checked", 1)
	}
	return nil
}

func u64be(b []byte) uint64 { return binary.BigEndian.Uint64(b) }
