package harness

import (
	"bufio"
	"crypto/sha256"
	"encoding/hex"
	"errors"
	"fmt"
	"os"
	"sort"
	"strings"
	"sync"

	"github.com/onflow/atree"
	"pgregory.net/rapid"
)

func isSched(k string) bool { return k == "commit" || k == "reopen" || k == "evict" || k == "crashchk" }

// reschedule rewrites the schedule of an op list (C08).
func reschedule(ops []Op, variant int) []Op {
	if variant == 0 {
		return ops
	}
	var out []Op
	i := 0
	for _, op := range ops {
		if isSched(op.K) {
			continue
		}
		out = append(out, op)
		i++
		switch variant {
		case 2:
			out = append(out, Op{K: "reopen", N: 2})
		case 3:
			if i%3 == 0 {
				out = append(out, Op{K: "commit", N: 3})
			}
		case 4:
			if i%2 == 0 {
				out = append(out, Op{K: "evict", N: 1})
			}
		case 5:
			if i%4 == 0 {
				out = append(out, Op{K: "reopen", N: 8})
			}
		case 6:
			out = append(out, Op{K: "commit", N: 2})
		}
	}
	return out
}

var variantName = []string{"as generated", "never until the end", "reopen after every op", "commit every 3 ops", "evict every 2 ops", "reopen every 4 ops, order-relaxed commit"}

func regsDigest(regs map[atree.SlabID][]byte) string {
	ids := make([]atree.SlabID, 0, len(regs))
	for id := range regs {
		ids = append(ids, id)
	}
	sort.Slice(ids, func(i, j int) bool { return ids[i].Compare(ids[j]) < 0 })
	h := sha256.New()
	for _, id := range ids {
		var raw [16]byte
		_, _ = id.ToRawBytes(raw[:])
		h.Write(raw[:])
		fmt.Fprintf(h, "%d:", len(regs[id]))
		h.Write(regs[id])
	}
	return hex.EncodeToString(h.Sum(nil)[:12])
}

func init() {
	// ------------------------------------------------------------------ C08: the read cache is transparent
	g8 := scale(&GenCfg{
		Slabs: quickSlabs, MinOps: 2, MaxOps: 40,
		W: map[string]int{
			"app": 8, "ins": 7, "set": 8, "rem": 9, "get": 3, "pop": 1, "appN": 5, "remN": 4,
			"mset": 12, "mget": 3, "mhas": 1, "mrem": 8, "mpop": 1, "msetN": 5, "mremN": 3, "styp": 2,
			"reget": 2, "reopen": 5, "commit": 3, "evict": 4, "grow": 1, "mgrow": 1, "setN": 2, "mupdN": 2, "shrink": 1, "mshrink": 1,
		},
		Roots: [][]RootSpec{
			{{K: "arr", Addr: 1, TI: 1}},
			{{K: "map", Addr: 1, TI: 2}},
			{{K: "arr", Addr: 1, TI: 1}, {K: "map", Addr: 2, TI: 2}},
		},
		MaxBulk: 80, Keys: []int{12, 64, 300},
		ValW: valAll, MaxDepth: 2, MaxElems: 5, AcqW: [3]int{8, 1, 1},
		HipGroupsPct: 20, DigRootsPct: 15,
	})
	register(&PropDef{
		ID:  "C08",
		New: func() any { return &Case{} },
		Gen: func(t *rapid.T) any { return g8.genCase(t, "C08") },
		Run: func(c any) (*CaseStats, error) {
			cs := c.(*Case)
			var ref *Engine
			var first *CaseStats
			for v := 0; v < len(variantName); v++ {
				cfg := cs.Cfg
				if v == 5 {
					cfg.NondetCommit = true
				}
				e, err := NewEngine(cfg, Oracles{CmpEvery: 4})
				if err != nil {
					return first, err
				}
				e.RecordResults = true
				if first == nil {
					first = e.Stats
				}
				wrap := func(err error) error { return fmt.Errorf("schedule %q: %w", variantName[v], err) }
				if err := e.Run(reschedule(cs.Ops, v)); err != nil {
					return first, wrap(err)
				}
				if err := e.Commit(0); err != nil {
					return first, wrap(err)
				}
				e.Or.Tree = true
				if err := e.checkStructure(); err != nil {
					return first, wrap(err)
				}
				if err := e.VerifyAll(); err != nil {
					return first, wrap(err)
				}
				if err := e.checkFresh(e.L, e.Roots, "end of history"); err != nil {
					return first, wrap(err)
				}
				if ref == nil {
					ref = e
					continue
				}
				// (results are compared with the model under every schedule; the textual comparison ACROSS schedules includes
				// enumeration orders, which follow the seed - not meaningful for maps transferred from the temporary address, F6)
				f6 := e.Stats.Has("map_transferred_from_temp_address") && !cs.Cfg.AllowF6
				if a, b := strings.Join(ref.Results, "\n"), strings.Join(e.Results, "\n"); a != b && !f6 {
					return first, fmt.Errorf("schedule %q: operation results differ from schedule %q:\n%s\n---\n%s", variantName[v], variantName[0], a, b)
				}
				if e.Stats.Has("map_transferred_from_temp_address") && !cs.Cfg.AllowF6 {
					// known finding F6 (DESIGN.md 10), excluded by construction: the seed of a map that was built at the temporary
					// address depends on the storage instance's temporary-id counter, which restarts at every reopen
					first.label("bytes_not_compared_known_F6")
				} else if !e.Stats.Has("composite_map") {
					if d := DiffRegs(ref.L.Regs, e.L.Regs); d != "" {
						if e.Stats.Has("map_transferred_from_temp_address") {
							return first, fmt.Errorf("schedule %q: final ledger differs from schedule %q (the history transfers a map from the temporary address - temporary-address seed): %s", variantName[v], variantName[0], d)
						}
						return first, fmt.Errorf("schedule %q: final ledger differs from schedule %q: %s", variantName[v], variantName[0], d)
					}
					first.label("bytes_compared")
				}
			}
			return first, nil
		},
		Nontrivial: func(s *CaseStats) bool {
			return s.Reopens > 0 && (s.Has("mutation_of_decoded_multi_slab") || s.Has("mutation_of_decoded_nested"))
		},
		Rule: "the generated schedule has a reopen/evict strictly inside the history followed by a mutation of a multi-slab or nested container decoded in that storage; each case is run under 6 schedules",
		Slab: caseSlab,
	})

	// ------------------------------------------------------------------ C04: ledger is a deterministic function of the history
	g4 := scale(&GenCfg{
		Slabs: quickSlabs, MinOps: 2, MaxOps: 40,
		W: map[string]int{
			"app": 8, "ins": 6, "set": 7, "rem": 8, "pop": 1, "appN": 7, "remN": 4,
			"mset": 12, "mrem": 8, "mpop": 1, "msetN": 6, "mremN": 3, "styp": 2,
			"reopen": 3, "commit": 6, "evict": 2,
		},
		Roots: [][]RootSpec{
			{{K: "arr", Addr: 1, TI: 1}, {K: "map", Addr: 256, TI: 2}},
			{{K: "map", Addr: 1 << 56, TI: 2}, {K: "arr", Addr: 255, TI: 1}, {K: "map", Addr: 2, TI: 3}},
			{{K: "arr", Addr: 0x0100000000000001, TI: 1}, {K: "arr", Addr: 0x0000000100000000, TI: 1}, {K: "cmap", Addr: 3, TI: 3}},
			{{K: "map", Addr: 1, TI: 2}},
		},
		MaxBulk: 120, Keys: []int{12, 64, 300},
		ValW: valAll, MaxDepth: 2, MaxElems: 5, AcqW: [3]int{8, 1, 1},
		HipGroupsPct: 30, // default-digester collisions: pooled digesters compute their deeper levels
	})
	register(&PropDef{
		ID:  "C04",
		New: func() any { return &Case{} },
		Gen: func(t *rapid.T) any { return g4.genCase(t, "C04") },
		Run: func(c any) (*CaseStats, error) {
			cs := c.(*Case)
			type run struct {
				name    string
				nondet  bool
				workers int
			}
			runs := []run{{"deterministic commit", false, cs.Cfg.Workers}, {"deterministic commit, 1 worker", false, 1},
				{"deterministic commit, 64 workers", false, 64}, {"deterministic commit (repeat)", false, cs.Cfg.Workers},
				{"order-relaxed commit, 3 workers", true, 3}}
			var refLogs [][]LogEntry
			var refRegs, refFail map[atree.SlabID][]byte
			var first *CaseStats
			for ri, r := range runs {
				cfg := cs.Cfg
				cfg.NondetCommit = r.nondet
				cfg.Workers = r.workers
				var logs [][]LogEntry
				var orderErr error
				or := Oracles{CmpEvery: 0}
				or.AtCommit = func(e *Engine) error {
					l := append([]LogEntry(nil), e.L.Log[e.commitLog:]...)
					logs = append(logs, l)
					if !r.nondet {
						for i := 1; i < len(l); i++ {
							a, b := l[i-1].ID, l[i].ID
							if a.AddressAsUint64() > b.AddressAsUint64() || (a.AddressAsUint64() == b.AddressAsUint64() && a.IndexAsUint64() >= b.IndexAsUint64()) {
								orderErr = fmt.Errorf("deterministic commit wrote %s before %s", a, b)
							}
						}
					}
					if len(l) >= 3 {
						addrs := map[uint64]bool{}
						del := false
						for _, x := range l {
							addrs[x.ID.AddressAsUint64()] = true
							del = del || x.Op == 'R'
						}
						if len(addrs) >= 2 && del {
							e.Stats.label("commit_3_slabs_2_owners_with_delete")
						}
					}
					return nil
				}
				e, err := NewEngine(cfg, or)
				if err != nil {
					return first, err
				}
				if first == nil {
					first = e.Stats
				}
				// op-level worker counts are overridden by the run's worker count
				ops := make([]Op, len(cs.Ops))
				copy(ops, cs.Ops)
				for i := range ops {
					if isSched(ops[i].K) {
						ops[i].N = 0
					}
				}
				if err := e.Run(ops); err != nil {
					return first, fmt.Errorf("%s: %w", r.name, err)
				}
				if err := e.Commit(0); err != nil {
					return first, fmt.Errorf("%s: %w", r.name, err)
				}
				if orderErr != nil {
					return first, fmt.Errorf("%s: %w", r.name, orderErr)
				}
				finalRegs := e.L.Snapshot()
				// epilogue (deterministic flavour): one more commit that FAILS because a value of the highest-keyed root
				// cannot be encoded while every other root is dirty too - what the failed commit leaves in the ledger must
				// not depend on the number of workers or on the order in which the encodings arrive
				if !r.nondet {
					fr, err := failingCommitEpilogue(e, r.workers)
					if err != nil {
						return first, fmt.Errorf("%s: %w", r.name, err)
					}
					if fr != nil {
						if refFail == nil {
							refFail = fr
						} else if d := DiffRegs(refFail, fr); d != "" {
							return first, fmt.Errorf("%s: after a commit that failed in an encoder the registers differ from %s: %s", r.name, runs[0].name, d)
						}
						first.label("failed_commit_compared")
					}
				}
				if ri == 0 {
					refLogs, refRegs = logs, finalRegs
					continue
				}
				if d := DiffRegs(refRegs, finalRegs); d != "" {
					return first, fmt.Errorf("%s: final registers differ from %s: %s", r.name, runs[0].name, d)
				}
				if len(logs) != len(refLogs) {
					return first, fmt.Errorf("%s: %d commits wrote, reference %d", r.name, len(logs), len(refLogs))
				}
				for ci := range logs {
					a, b := refLogs[ci], logs[ci]
					if len(a) != len(b) {
						return first, fmt.Errorf("%s: commit %d issued %d writes, reference %d", r.name, ci, len(b), len(a))
					}
					if r.nondet {
						key := func(x LogEntry) string { return fmt.Sprintf("%c%s/%d", x.Op, x.ID, x.Len) }
						sa, sb := make([]string, len(a)), make([]string, len(b))
						for i := range a {
							sa[i], sb[i] = key(a[i]), key(b[i])
						}
						sort.Strings(sa)
						sort.Strings(sb)
						if strings.Join(sa, ",") != strings.Join(sb, ",") {
							return first, fmt.Errorf("%s: commit %d wrote a different set: %v vs %v", r.name, ci, sb, sa)
						}
						continue
					}
					for i := range a {
						if a[i] != b[i] {
							return first, fmt.Errorf("%s: commit %d write %d is %c %s (%d bytes), reference %c %s (%d bytes)", r.name, ci, i, b[i].Op, b[i].ID, b[i].Len, a[i].Op, a[i].ID, a[i].Len)
						}
					}
				}
			}
			dg := regsDigest(refRegs)
			if err := crossProcess(hashOf(cs), dg); err != nil {
				return first, err
			}
			return first, nil
		},
		Nontrivial: func(s *CaseStats) bool { return s.Has("commit>=3_dirty") && s.Has("remove") },
		Rule:       "a commit with >=3 dirty slabs in a history that also deletes; each case is run 5x in-process (workers 1/N/64, repeat, order-relaxed) and its register digest is compared with a second OS process",
		Slab:       caseSlab,
	})
}

// failingCommitEpilogue dirties every owned root, gives the root with the highest slab identifier a value whose encoding
// fails, commits (the commit must fail) and returns the registers the failed commit left behind (nil if the case has no
// suitable root).
func failingCommitEpilogue(e *Engine, workers int) (map[atree.SlabID][]byte, error) {
	var last *Node
	for _, r := range e.Roots {
		if r.Addr == atree.AddressUndefined || (r.IsMap && (r.TI.Comp || r.Dig != nil)) {
			continue
		}
		if last == nil || r.Root.Compare(last.Root) > 0 {
			last = r
		}
	}
	if last == nil || len(e.Roots) < 2 {
		return nil, nil
	}
	for _, r := range e.Roots {
		if r.Addr == atree.AddressUndefined {
			continue
		}
		if err := e.acquire(r); err != nil {
			return nil, err
		}
		var v atree.Value = U64(424242)
		if r == last {
			v = FailEnc{}
		}
		if r.IsMap {
			if r.TI.Comp || r.Dig != nil {
				continue
			}
			if _, err := r.HM.Set(e.CB.Compare, e.CB.HashInput, U64(987654321987), v); err != nil {
				return nil, fmt.Errorf("epilogue Set failed: %v", err)
			}
		} else if err := r.HA.Append(v); err != nil {
			return nil, fmt.Errorf("epilogue Append failed: %v", err)
		}
	}
	err := e.St.FastCommit(workers)
	if err == nil || !errors.Is(err, ErrInjected) {
		return nil, fmt.Errorf("a commit with an unencodable value returned %v", err)
	}
	return e.L.Snapshot(), nil
}

// ---------------------------------------------------------------- cross-process determinism (C04)

var (
	xpMu   sync.Mutex
	xpOut  *os.File
	xpIn   map[string]string
	xpInit bool
)

// crossProcess records the digest of a case (pass A) or compares it with the one
// recorded by another OS process that ran the same generated case (pass B).
func crossProcess(caseHash, digest string) error {
	xpMu.Lock()
	defer xpMu.Unlock()
	if !xpInit {
		xpInit = true
		if p := os.Getenv("VERIF_DIGEST_OUT"); p != "" {
			f, err := os.OpenFile(p, os.O_CREATE|os.O_WRONLY|os.O_APPEND, 0o644)
			if err != nil {
				panic(err)
			}
			xpOut = f
		}
		if p := os.Getenv("VERIF_DIGEST_IN"); p != "" {
			xpIn = map[string]string{}
			f, err := os.Open(p)
			if err == nil {
				sc := bufio.NewScanner(f)
				for sc.Scan() {
					parts := strings.Fields(sc.Text())
					if len(parts) == 2 {
						xpIn[parts[0]] = parts[1]
					}
				}
				f.Close()
			}
		}
	}
	if xpOut != nil {
		fmt.Fprintf(xpOut, "%s %s\n", caseHash, digest)
	}
	if xpIn != nil {
		if want, ok := xpIn[caseHash]; ok && want != digest {
			return fmt.Errorf("final registers differ between two OS processes running the same history: digest %s here, %s in the other process", digest, want)
		}
	}
	return nil
}
