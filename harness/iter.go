package harness

// iter.go: iterator battery (C13) — every way of enumerating a container must
// yield the model's elements exactly once in canonical order.

import (
	"errors"
	"fmt"

	"github.com/onflow/atree"
)

func (e *Engine) checkIterators() error {
	for _, n := range e.allNodes() {
		if n.Parent == nil {
			if err := e.acquire(n); err != nil {
				return err
			}
		}
		if !n.HasHandle() {
			continue
		}
		var err error
		if n.IsMap {
			err = e.checkMapIterators(n)
		} else {
			err = e.checkArrayIterators(n, uint64(e.step))
		}
		if err != nil {
			return err
		}
	}
	return nil
}

func (e *Engine) cmpSeq(what string, got []atree.Value, want []MV) error {
	if len(got) != len(want) {
		return e.viol("%s yields %d elements, expected %d", what, len(got), len(want))
	}
	for i := range got {
		if err := cmpValue(got[i], want[i], fmt.Sprintf("%s[%d]", what, i), e.co()); err != nil {
			return e.viol("%v", err)
		}
	}
	return nil
}

// iterLimit bounds every collecting callback: an enumeration that cycles (never ends) must become a length
// mismatch, not a hang.
const iterLimitSlack = 2

func collectArr(it func(atree.ArrayIterationFunc) error) ([]atree.Value, error) {
	return collectArrN(it, 1<<40)
}

func collectArrN(it func(atree.ArrayIterationFunc) error, limit int) ([]atree.Value, error) {
	var out []atree.Value
	err := it(func(v atree.Value) (bool, error) {
		out = append(out, v)
		return len(out) < limit, nil
	})
	return out, err
}

func (e *Engine) checkArrayIterators(n *Node, salt uint64) error {
	a := n.HA
	want := n.Elems
	cnt := uint64(len(want))
	name := fmt.Sprintf("array#%d", n.ID)

	collectArr := func(it func(atree.ArrayIterationFunc) error) ([]atree.Value, error) {
		return collectArrN(it, len(want)+iterLimitSlack)
	}
	got, err := collectArr(a.IterateReadOnly)
	if err != nil {
		return e.viol("%s IterateReadOnly failed: %v", name, err)
	}
	if err := e.cmpSeq(name+" IterateReadOnly", got, want); err != nil {
		return err
	}
	got, err = collectArr(a.Iterate)
	if err != nil {
		return e.viol("%s Iterate failed: %v", name, err)
	}
	if err := e.cmpSeq(name+" Iterate", got, want); err != nil {
		return err
	}
	got, err = collectArr(a.IterateReadOnlyLoadedValues)
	if err != nil {
		return e.viol("%s IterateReadOnlyLoadedValues failed: %v", name, err)
	}
	if err := e.cmpSeq(name+" loaded values (all loaded)", got, want); err != nil {
		return err
	}
	// explicit iterator objects
	for _, ro := range []bool{true, false} {
		var it atree.ArrayIterator
		if ro {
			it, err = a.ReadOnlyIterator()
		} else {
			it, err = a.Iterator()
		}
		if err != nil {
			return e.viol("%s creating iterator failed: %v", name, err)
		}
		if it.CanMutate() == ro {
			return e.viol("%s iterator CanMutate()=%v for readonly=%v", name, it.CanMutate(), ro)
		}
		got = got[:0]
		for {
			v, err := it.Next()
			if err != nil {
				return e.viol("%s iterator Next failed: %v", name, err)
			}
			if v == nil {
				break
			}
			got = append(got, v)
			if uint64(len(got)) > cnt {
				break
			}
		}
		if err := e.cmpSeq(fmt.Sprintf("%s Next() readonly=%v", name, ro), got, want); err != nil {
			return err
		}
	}
	// read-only flavours with a mutation callback: same sequence; the callback stays silent while nothing is mutated
	called := 0
	cb := func(atree.Value) { called++ }
	got, err = collectArr(func(fn atree.ArrayIterationFunc) error { return a.IterateReadOnlyWithMutationCallback(fn, cb) })
	if err != nil {
		return e.viol("%s IterateReadOnlyWithMutationCallback failed: %v", name, err)
	}
	if err := e.cmpSeq(name+" IterateReadOnlyWithMutationCallback", got, want); err != nil {
		return err
	}
	drain := func(what string, it atree.ArrayIterator, err error, ro bool, want []MV) error {
		if err != nil {
			return e.viol("%s: creating the iterator failed: %v", what, err)
		}
		if it.CanMutate() == ro {
			return e.viol("%s: CanMutate()=%v for readonly=%v", what, it.CanMutate(), ro)
		}
		var got []atree.Value
		for {
			v, err := it.Next()
			if err != nil {
				return e.viol("%s: Next failed: %v", what, err)
			}
			if v == nil {
				break
			}
			got = append(got, v)
			if len(got) > len(want) {
				break
			}
		}
		// an exhausted iterator stays exhausted
		if v, err := it.Next(); err != nil || v != nil {
			if len(got) <= len(want) {
				return e.viol("%s: Next after the end returned (%v, %v)", what, v, err)
			}
		}
		return e.cmpSeq(what, got, want)
	}
	itc, err := a.ReadOnlyIteratorWithMutationCallback(cb)
	if err := drain(name+" ReadOnlyIteratorWithMutationCallback", itc, err, true, want); err != nil {
		return err
	}
	lit, err := a.ReadOnlyLoadedValueIterator()
	if err != nil {
		return e.viol("%s ReadOnlyLoadedValueIterator failed: %v", name, err)
	}
	if err := drain(name+" ReadOnlyLoadedValueIterator (all loaded)", lit, nil, true, want); err != nil {
		return err
	}
	// positional lookups agree
	for _, i := range pickIdx(cnt, salt) {
		v, err := a.Get(i)
		if err != nil {
			return e.viol("%s Get(%d) failed: %v", name, i, err)
		}
		if err := cmpValue(v, want[i], fmt.Sprintf("%s Get(%d)", name, i), e.co()); err != nil {
			return e.viol("%v", err)
		}
		if c := nodeOf(want[i]); c != nil && c.HasHandle() {
			// Get handed out a new handle object: keep R1 by designating it
			retire(c)
			if err := e.setHandle(c, v); err != nil {
				return err
			}
		}
	}
	// ranges
	collectIt := func(it atree.ArrayIterator, err error) ([]atree.Value, error) {
		if err != nil {
			return nil, err
		}
		var out []atree.Value
		for {
			v, err := it.Next()
			if err != nil {
				return out, err
			}
			if v == nil {
				return out, nil
			}
			out = append(out, v)
			if uint64(len(out)) > cnt {
				return out, nil
			}
		}
	}
	for _, r := range pickRanges(cnt, salt) {
		s, t := r[0], r[1]
		for fl := 0; fl < 6; fl++ {
			var got []atree.Value
			var err error
			switch fl {
			case 0:
				got, err = collectArr(func(fn atree.ArrayIterationFunc) error { return a.IterateRange(s, t, fn) })
			case 1:
				got, err = collectArr(func(fn atree.ArrayIterationFunc) error { return a.IterateReadOnlyRange(s, t, fn) })
			case 2:
				got, err = collectArr(func(fn atree.ArrayIterationFunc) error {
					return a.IterateReadOnlyRangeWithMutationCallback(s, t, fn, cb)
				})
			case 3:
				got, err = collectIt(a.RangeIterator(s, t))
			case 4:
				got, err = collectIt(a.ReadOnlyRangeIterator(s, t))
			case 5:
				got, err = collectIt(a.ReadOnlyRangeIteratorWithMutationCallback(s, t, cb))
			}
			what := fmt.Sprintf("%s range [%d,%d) of %d flavour=%d", name, s, t, cnt, fl)
			if s > cnt || t > cnt {
				var oob *atree.SliceOutOfBoundsError
				if err == nil || !errors.As(err, &oob) || !isUser(err) {
					return e.viol("%s: expected a user SliceOutOfBoundsError, got %v", what, err)
				}
				continue
			}
			if s > t {
				var inv *atree.InvalidSliceIndexError
				if err == nil || !errors.As(err, &inv) || !isUser(err) {
					return e.viol("%s: expected a user InvalidSliceIndexError, got %v", what, err)
				}
				continue
			}
			if err != nil {
				return e.viol("%s failed: %v", what, err)
			}
			if err := e.cmpSeq(what, got, want[s:t]); err != nil {
				return err
			}
		}
	}
	if called != 0 {
		return e.viol("%s: the mutation callback of a read-only iterator was invoked %d times although nothing was mutated", name, called)
	}
	e.Stats.Add("iterator_batteries", 1)
	return nil
}

func pickIdx(cnt, salt uint64) []uint64 {
	if cnt == 0 {
		return nil
	}
	out := []uint64{0, cnt - 1, cnt / 2, mix64(salt) % cnt, mix64(salt+1) % cnt}
	return out
}

func pickRanges(cnt, salt uint64) [][2]uint64 {
	rs := [][2]uint64{{0, cnt}, {0, 0}, {cnt, cnt}, {cnt, cnt + 1}, {cnt + 1, cnt + 1}, {cnt + 2, cnt},
		{0, 1<<32 + cnt/2}, {1 << 32, 1<<32 + cnt}, {1<<32 + cnt/2, cnt}, {0, ^uint64(0)}}
	if cnt > 0 {
		a, b := mix64(salt*3)%(cnt+1), mix64(salt*3+1)%(cnt+1)
		rs = append(rs, [2]uint64{a, b}, [2]uint64{b, a}, [2]uint64{0, a}, [2]uint64{a, cnt}, [2]uint64{cnt / 2, cnt/2 + 1}, [2]uint64{1, 0})
		for k := uint64(2); k < 6; k++ {
			x, y := mix64(salt*7+k)%(cnt+1), mix64(salt*11+k)%(cnt+1)
			if x > y {
				x, y = y, x
			}
			rs = append(rs, [2]uint64{x, y})
		}
	}
	return rs
}

type kv struct{ k, v atree.Value }

func (e *Engine) checkMapIterators(n *Node) error {
	m := n.HM
	name := fmt.Sprintf("map#%d", n.ID)
	order := e.expectedOrder(n, m.Seed())
	cmp, hip := e.CB.Compare, e.CB.HashInput

	checkPairs := func(what string, got []kv) error {
		if len(got) != len(order) {
			return e.viol("%s yields %d entries, expected %d", what, len(got), len(order))
		}
		for i, g := range got {
			ck, err := canonOfValue(g.k)
			if err != nil {
				return e.viol("%s: %v", what, err)
			}
			if ck != order[i] {
				return e.viol("%s: position %d holds key %s, canonical order expects %s", what, i, short(ck), short(order[i]))
			}
			if g.v != nil {
				if err := cmpValue(g.v, n.Ents[ck].V, fmt.Sprintf("%s value of %s", what, short(ck)), e.co()); err != nil {
					return e.viol("%v", err)
				}
			}
		}
		return nil
	}
	checkVals := func(what string, got []atree.Value) error {
		if len(got) != len(order) {
			return e.viol("%s yields %d values, expected %d", what, len(got), len(order))
		}
		for i, g := range got {
			if err := cmpValue(g, n.Ents[order[i]].V, fmt.Sprintf("%s[%d]", what, i), e.co()); err != nil {
				return e.viol("%v", err)
			}
		}
		return nil
	}
	limit := len(order) + iterLimitSlack // an enumeration that cycles becomes a length mismatch, not a hang
	pairs := func(it func(atree.MapEntryIterationFunc) error) ([]kv, error) {
		var out []kv
		err := it(func(k, v atree.Value) (bool, error) {
			out = append(out, kv{k, v})
			return len(out) < limit, nil
		})
		return out, err
	}
	singles := func(it func(atree.MapElementIterationFunc) error) ([]atree.Value, error) {
		var out []atree.Value
		err := it(func(v atree.Value) (bool, error) {
			out = append(out, v)
			return len(out) < limit, nil
		})
		return out, err
	}

	got, err := pairs(m.IterateReadOnly)
	if err != nil {
		return e.viol("%s IterateReadOnly failed: %v", name, err)
	}
	if err := checkPairs(name+" IterateReadOnly", got); err != nil {
		return err
	}
	got, err = pairs(func(fn atree.MapEntryIterationFunc) error { return m.Iterate(cmp, hip, fn) })
	if err != nil {
		return e.viol("%s Iterate failed: %v", name, err)
	}
	if err := checkPairs(name+" Iterate", got); err != nil {
		return err
	}
	got, err = pairs(m.IterateReadOnlyLoadedValues)
	if err != nil {
		return e.viol("%s IterateReadOnlyLoadedValues failed: %v", name, err)
	}
	if err := checkPairs(name+" loaded values (all loaded)", got); err != nil {
		return err
	}
	toKV := func(ks []atree.Value) []kv {
		out := make([]kv, len(ks))
		for i := range ks {
			out[i] = kv{ks[i], nil}
		}
		return out
	}
	ks, err := singles(m.IterateReadOnlyKeys)
	if err != nil {
		return e.viol("%s IterateReadOnlyKeys failed: %v", name, err)
	}
	if err := checkPairs(name+" IterateReadOnlyKeys", toKV(ks)); err != nil {
		return err
	}
	ks, err = singles(func(fn atree.MapElementIterationFunc) error { return m.IterateKeys(cmp, hip, fn) })
	if err != nil {
		return e.viol("%s IterateKeys failed: %v", name, err)
	}
	if err := checkPairs(name+" IterateKeys", toKV(ks)); err != nil {
		return err
	}
	vs, err := singles(m.IterateReadOnlyValues)
	if err != nil {
		return e.viol("%s IterateReadOnlyValues failed: %v", name, err)
	}
	if err := checkVals(name+" IterateReadOnlyValues", vs); err != nil {
		return err
	}
	vs, err = singles(func(fn atree.MapElementIterationFunc) error { return m.IterateValues(cmp, hip, fn) })
	if err != nil {
		return e.viol("%s IterateValues failed: %v", name, err)
	}
	if err := checkVals(name+" IterateValues", vs); err != nil {
		return err
	}
	// read-only flavours with mutation callbacks: same enumeration, callbacks silent while nothing is mutated
	called := 0
	cb := func(atree.Value) { called++ }
	got, err = pairs(func(fn atree.MapEntryIterationFunc) error { return m.IterateReadOnlyWithMutationCallback(fn, cb, cb) })
	if err != nil {
		return e.viol("%s IterateReadOnlyWithMutationCallback failed: %v", name, err)
	}
	if err := checkPairs(name+" IterateReadOnlyWithMutationCallback", got); err != nil {
		return err
	}
	ks, err = singles(func(fn atree.MapElementIterationFunc) error { return m.IterateReadOnlyKeysWithMutationCallback(fn, cb) })
	if err != nil {
		return e.viol("%s IterateReadOnlyKeysWithMutationCallback failed: %v", name, err)
	}
	if err := checkPairs(name+" IterateReadOnlyKeysWithMutationCallback", toKV(ks)); err != nil {
		return err
	}
	vs, err = singles(func(fn atree.MapElementIterationFunc) error {
		return m.IterateReadOnlyValuesWithMutationCallback(fn, cb)
	})
	if err != nil {
		return e.viol("%s IterateReadOnlyValuesWithMutationCallback failed: %v", name, err)
	}
	if err := checkVals(name+" IterateReadOnlyValuesWithMutationCallback", vs); err != nil {
		return err
	}
	// explicit iterator objects, mixing Next / NextKey / NextValue
	for fl := 0; fl < 4; fl++ {
		ro := fl != 1
		var it atree.MapIterator
		switch fl {
		case 0:
			it, err = m.ReadOnlyIterator()
		case 1:
			it, err = m.Iterator(cmp, hip)
		case 2:
			it, err = m.ReadOnlyIteratorWithMutationCallback(cb, cb)
		case 3:
			it, err = m.ReadOnlyLoadedValueIterator()
		}
		if err != nil {
			return e.viol("%s creating iterator failed: %v", name, err)
		}
		if it.CanMutate() == ro {
			return e.viol("%s iterator CanMutate()=%v for readonly=%v", name, it.CanMutate(), ro)
		}
		i := 0
		for ; ; i++ {
			var k, v atree.Value
			switch i % 3 {
			case 0:
				k, v, err = it.Next()
			case 1:
				k, err = it.NextKey()
			default:
				v, err = it.NextValue()
			}
			if err != nil {
				return e.viol("%s iterator step %d failed: %v", name, i, err)
			}
			if k == nil && v == nil {
				break
			}
			if i >= len(order) {
				return e.viol("%s iterator (readonly=%v) yields more than %d entries", name, ro, len(order))
			}
			if k != nil {
				ck, err := canonOfValue(k)
				if err != nil || ck != order[i] {
					return e.viol("%s iterator (readonly=%v) position %d holds key %v, expected %s", name, ro, i, k, short(order[i]))
				}
			}
			if v != nil {
				if err := cmpValue(v, n.Ents[order[i]].V, fmt.Sprintf("%s iterator value %d", name, i), e.co()); err != nil {
					return e.viol("%v", err)
				}
			}
		}
		if i != len(order) {
			return e.viol("%s iterator (flavour %d) yields %d entries, expected %d", name, fl, i, len(order))
		}
		if k, v, err := it.Next(); err != nil || k != nil || v != nil {
			return e.viol("%s iterator (flavour %d): Next after the end returned (%v, %v, %v)", name, fl, k, v, err)
		}
	}
	if called != 0 {
		return e.viol("%s: a mutation callback of a read-only iterator was invoked %d times although nothing was mutated", name, called)
	}
	e.Stats.Add("iterator_batteries", 1)
	return nil
}
