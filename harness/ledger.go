package harness

import (
	"bytes"
	"encoding/binary"
	"fmt"
	"sort"

	"github.com/onflow/atree"
)

// Ledger is the harness's in-memory BaseStorage: it records every call, can
// be snapshotted / restored / listed, allocates slab indexes deterministically
// and can fail chosen write or read calls.
type Ledger struct {
	Regs map[atree.SlabID][]byte
	next map[atree.Address]uint64

	Log      []LogEntry // Store / Remove calls (acknowledged and failed)
	Writes   int        // number of Store+Remove calls so far (1-based position of the last one)
	FailAt   map[int]bool
	Reads    int
	FailRead int // 1-based; 0 = never
	Jitter   func()
	// ViaLedgerAPI: storages created over this ledger reach it through the library's own
	// LedgerBaseStorage (owner/key/value interface of a Flow-style ledger) instead of directly
	ViaLedgerAPI bool
}

type LogEntry struct {
	Op     byte // 'S' store, 'R' remove
	ID     atree.SlabID
	Len    int
	Failed bool
}

var _ atree.BaseStorage = &Ledger{}

func NewLedger() *Ledger {
	return &Ledger{
		Regs: map[atree.SlabID][]byte{},
		next: map[atree.Address]uint64{},
	}
}

func (l *Ledger) Store(id atree.SlabID, data []byte) error {
	l.Writes++
	if l.Jitter != nil {
		l.Jitter()
	}
	if l.FailAt[l.Writes] {
		l.Log = append(l.Log, LogEntry{'S', id, len(data), true})
		return ErrInjected
	}
	l.Log = append(l.Log, LogEntry{'S', id, len(data), false})
	l.Regs[id] = bytes.Clone(data)
	return nil
}

func (l *Ledger) Remove(id atree.SlabID) error {
	l.Writes++
	if l.Jitter != nil {
		l.Jitter()
	}
	if l.FailAt[l.Writes] {
		l.Log = append(l.Log, LogEntry{'R', id, 0, true})
		return ErrInjected
	}
	l.Log = append(l.Log, LogEntry{'R', id, 0, false})
	delete(l.Regs, id)
	return nil
}

func (l *Ledger) Retrieve(id atree.SlabID) ([]byte, bool, error) {
	l.Reads++
	if l.Jitter != nil {
		l.Jitter()
	}
	if l.FailRead != 0 && l.Reads == l.FailRead {
		return nil, false, ErrInjected
	}
	b, ok := l.Regs[id]
	return b, ok, nil
}

func (l *Ledger) GenerateSlabID(a atree.Address) (atree.SlabID, error) {
	l.next[a]++
	var idx atree.SlabIndex
	binary.BigEndian.PutUint64(idx[:], l.next[a])
	return atree.NewSlabID(a, idx), nil
}

func (l *Ledger) SegmentCounts() int { return len(l.Regs) }
func (l *Ledger) Size() int {
	n := 0
	for _, b := range l.Regs {
		n += len(b)
	}
	return n
}
func (l *Ledger) BytesRetrieved() int   { return 0 }
func (l *Ledger) BytesStored() int      { return 0 }
func (l *Ledger) SegmentsReturned() int { return 0 }
func (l *Ledger) SegmentsUpdated() int  { return 0 }
func (l *Ledger) SegmentsTouched() int  { return 0 }
func (l *Ledger) ResetReporter()        {}

// Keys returns the register ids in ascending (address, index) byte order.
func (l *Ledger) Keys() []atree.SlabID {
	ks := make([]atree.SlabID, 0, len(l.Regs))
	for k := range l.Regs {
		ks = append(ks, k)
	}
	sort.Slice(ks, func(i, j int) bool { return ks[i].Compare(ks[j]) < 0 })
	return ks
}

// Snapshot returns a deep copy of the registers (not of the log / counters).
func (l *Ledger) Snapshot() map[atree.SlabID][]byte {
	m := make(map[atree.SlabID][]byte, len(l.Regs))
	for k, v := range l.Regs {
		m[k] = bytes.Clone(v)
	}
	return m
}

// Clone returns an independent ledger with the same registers and id counters.
func (l *Ledger) Clone() *Ledger {
	c := NewLedger()
	c.Regs = l.Snapshot()
	for a, n := range l.next {
		c.next[a] = n
	}
	c.ViaLedgerAPI = l.ViaLedgerAPI
	return c
}

// DiffRegs describes the first difference between two register maps ("" if equal).
func DiffRegs(a, b map[atree.SlabID][]byte) string {
	for k, v := range a {
		w, ok := b[k]
		if !ok {
			return fmt.Sprintf("register %s only in first (len %d)", k, len(v))
		}
		if !bytes.Equal(v, w) {
			return fmt.Sprintf("register %s differs: %x vs %x", k, v, w)
		}
	}
	for k, w := range b {
		if _, ok := a[k]; !ok {
			return fmt.Sprintf("register %s only in second (len %d)", k, len(w))
		}
	}
	return ""
}

func NewStorage(l atree.BaseStorage) *atree.PersistentSlabStorage {
	if hl, ok := l.(*Ledger); ok && hl.ViaLedgerAPI {
		l = atree.NewLedgerBaseStorage(&ledgerAdapter{hl})
	}
	return atree.NewPersistentSlabStorage(l, EncMode, DecMode, DecodeStorable, DecodeTypeInfo)
}

// ledgerAdapter presents a harness Ledger through the owner/key/value interface that
// atree.LedgerBaseStorage expects (keys are "$" followed by the 8-byte slab index; an empty value deletes).
type ledgerAdapter struct{ l *Ledger }

var _ atree.Ledger = &ledgerAdapter{}

func (a *ledgerAdapter) id(owner, key []byte) (atree.SlabID, error) {
	if len(owner) != 8 || len(key) != 9 || !atree.LedgerKeyIsSlabKey(string(key)) {
		return atree.SlabID{}, fmt.Errorf("verif: unexpected ledger key %x / %x", owner, key)
	}
	return atree.NewSlabIDFromRawBytes(append(append([]byte(nil), owner...), key[1:]...))
}

func (a *ledgerAdapter) GetValue(owner, key []byte) ([]byte, error) {
	id, err := a.id(owner, key)
	if err != nil {
		return nil, err
	}
	b, _, err := a.l.Retrieve(id)
	return b, err
}

func (a *ledgerAdapter) SetValue(owner, key, value []byte) error {
	id, err := a.id(owner, key)
	if err != nil {
		return err
	}
	if len(value) == 0 {
		return a.l.Remove(id)
	}
	return a.l.Store(id, value)
}

func (a *ledgerAdapter) ValueExists(owner, key []byte) (bool, error) {
	id, err := a.id(owner, key)
	if err != nil {
		return false, err
	}
	_, ok := a.l.Regs[id]
	return ok, nil
}

func (a *ledgerAdapter) AllocateSlabIndex(owner []byte) (atree.SlabIndex, error) {
	var addr atree.Address
	copy(addr[:], owner)
	id, err := a.l.GenerateSlabID(addr)
	if err != nil {
		return atree.SlabIndex{}, err
	}
	return id.Index(), nil
}
