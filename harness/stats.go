package harness

// stats.go: per-case statistics (labels), the per-shard stats file read by the
// driver, replay files, seeds.

import (
	"crypto/sha256"
	"encoding/hex"
	"encoding/json"
	"fmt"
	"os"
	"path/filepath"
	"sort"
	"strconv"
	"sync"
)

type CaseStats struct {
	Labels      map[string]int `json:"labels"`
	Ops         int            `json:"ops"`
	Skipped     int            `json:"skipped,omitempty"`
	Commits     int            `json:"commits,omitempty"`
	Reopens     int            `json:"reopens,omitempty"`
	CrashPoints int            `json:"crash_points,omitempty"`
	Extra       map[string]int `json:"extra,omitempty"`

	pendingDecodedMutation bool
}

func newCaseStats() *CaseStats {
	return &CaseStats{Labels: map[string]int{}, Extra: map[string]int{}}
}

func (s *CaseStats) label(l string)      { s.Labels[l]++ }
func (s *CaseStats) Has(l string) bool   { return s.Labels[l] > 0 }
func (s *CaseStats) Add(k string, n int) { s.Extra[k] += n }

// statLine is one line of the stats file.
type statLine struct {
	Prop    string         `json:"prop"`
	Hash    string         `json:"hash"`
	Labels  []string       `json:"labels"`
	Ops     int            `json:"ops"`
	Slab    uint32         `json:"slab,omitempty"`
	Extra   map[string]int `json:"extra,omitempty"`
	Sample  any            `json:"sample,omitempty"`
	Nontriv bool           `json:"nontrivial"`
	Rule    string         `json:"rule,omitempty"`
}

var (
	statsMu   sync.Mutex
	statsFile *os.File
	sampleCnt = map[string]int{}
)

func statsOut() *os.File {
	if statsFile != nil {
		return statsFile
	}
	p := os.Getenv("VERIF_STATS")
	if p == "" {
		return nil
	}
	f, err := os.OpenFile(p, os.O_CREATE|os.O_WRONLY|os.O_APPEND, 0o644)
	if err != nil {
		panic(err)
	}
	statsFile = f
	return f
}

func hashOf(v any) string {
	b, _ := json.Marshal(v)
	h := sha256.Sum256(b)
	return hex.EncodeToString(h[:8])
}

// Emit writes one stats line for a finished (passing) case.  The first few
// non-trivial cases per property carry the case itself as a sample.
func Emit(prop string, c any, slab uint32, st *CaseStats, nontrivial bool, rule string) {
	statsMu.Lock()
	defer statsMu.Unlock()
	f := statsOut()
	if f == nil {
		return
	}
	ls := make([]string, 0, len(st.Labels))
	for l := range st.Labels {
		ls = append(ls, l)
	}
	sort.Strings(ls)
	line := statLine{Prop: prop, Hash: hashOf(c), Labels: ls, Ops: st.Ops, Slab: slab, Extra: st.Extra, Nontriv: nontrivial}
	if nontrivial && sampleCnt[prop] < 3 {
		sampleCnt[prop]++
		line.Sample = c
		line.Rule = rule
	}
	b, _ := json.Marshal(line)
	f.Write(append(b, '\n'))
}

// ReplayDir is where shrunk failing cases are written.
func ReplayDir() string {
	if d := os.Getenv("VERIF_REPLAY_DIR"); d != "" {
		return d
	}
	return "/verif/replays"
}

// WriteReplay stores a failing case as JSON and returns its path.
func WriteReplay(prop string, c any, msg string) string {
	dir := ReplayDir()
	_ = os.MkdirAll(dir, 0o755)
	p := filepath.Join(dir, fmt.Sprintf("%s-%s.json", prop, hashOf(c)))
	b, _ := json.MarshalIndent(map[string]any{"property": prop, "failure": msg, "case": c}, "", " ")
	_ = os.WriteFile(p, b, 0o644)
	return p
}

// ReadReplay loads the "case" member of a replay file into out.
func ReadReplay(path string, out any) error {
	b, err := os.ReadFile(path)
	if err != nil {
		return err
	}
	var w struct {
		Case json.RawMessage `json:"case"`
	}
	if err := json.Unmarshal(b, &w); err != nil {
		return err
	}
	return json.Unmarshal(w.Case, out)
}

func envInt(name string, def int) int {
	if s := os.Getenv(name); s != "" {
		if n, err := strconv.Atoi(s); err == nil {
			return n
		}
	}
	return def
}

func thorough() bool { return os.Getenv("VERIF_TIER") == "thorough" }
