package harness

// engine_sched.go: commit / reopen / evict / crash points, per-step checks.

import (
	"errors"
	"fmt"

	"github.com/onflow/atree"
)

func (e *Engine) copyRoots() []*Node {
	out := make([]*Node, 0, len(e.Roots))
	for _, r := range e.Roots {
		out = append(out, deepCopyMV(r, nil).(*Node))
	}
	return out
}

func (e *Engine) doCommit(workers int) error {
	w := workers
	if w <= 0 {
		w = e.Cfg.Workers
	}
	if e.Cfg.NondetCommit {
		return e.St.NondeterministicFastCommit(w)
	}
	return e.St.FastCommit(w)
}

// Commit commits and runs the commit-time oracles.
func (e *Engine) Commit(workers int) error {
	e.quiet = false
	dirty := e.St.DeltasWithoutTempAddresses()
	for attempt := 0; ; attempt++ {
		before := len(e.L.Log)
		err := e.doCommit(workers)
		if err == nil {
			break
		}
		if !e.AllowCommitFaults || !errors.Is(err, ErrInjected) {
			return e.viol("commit failed: %v", err)
		}
		// C14: an injected ledger failure
		var x *atree.ExternalError
		if !errors.As(err, &x) {
			return e.viol("commit with a failing ledger write returned %T (%v), expected an external error", err, err)
		}
		if attempt > 20 {
			return e.viol("commit still failing after %d retries", attempt)
		}
		e.Stats.label("commit_fault_injected")
		if len(e.L.Log)-before >= 2 {
			e.Stats.label("commit_fault_after_partial_progress")
		}
		if e.St.DeltasWithoutTempAddresses() == 0 {
			return e.viol("a failed commit left no pending changes although the failing write was never acknowledged")
		}
		// reads through the storage still return the latest values
		if err := e.CompareAll(); err != nil {
			return err
		}
	}
	e.commits++
	e.Stats.Commits++
	if dirty > 0 {
		e.Stats.label("commit_with_changes")
	}
	if dirty >= 3 {
		e.Stats.label("commit>=3_dirty")
	}
	if d := e.St.DeltasWithoutTempAddresses(); d != 0 {
		return e.viol("after a successful commit %d owned slabs are still pending", d)
	}
	for id := range e.L.Regs {
		if id.HasTempAddress() {
			return e.viol("register %s with the temporary address was written", id)
		}
	}
	if e.Or.FreshAtCommit {
		if err := e.checkFresh(e.L, e.Roots, "after commit"); err != nil {
			return err
		}
	}
	if e.Or.RoundTrip {
		if err := e.checkRegisters(); err != nil {
			return err
		}
	}
	if e.Or.VerifySer {
		if err := e.verifySerialization(); err != nil {
			return err
		}
	}
	if e.Or.AtCommit != nil {
		if err := e.Or.AtCommit(e); err != nil {
			return err
		}
	}
	e.commitRegs = e.L.Snapshot()
	e.commitLog = len(e.L.Log)
	e.commitModel = e.copyRoots()
	return nil
}

func (e *Engine) hasTempRoot() bool {
	for _, r := range e.Roots {
		if r.Addr == atree.AddressUndefined {
			return true
		}
	}
	return false
}

// Reopen commits, abandons the storage and opens a new one over the same ledger (R2).
func (e *Engine) Reopen(workers int) error {
	if e.hasTempRoot() {
		// temporary-address containers live only in the storage object: keep it, drop the cache instead
		return e.Evict(workers)
	}
	if err := e.Commit(workers); err != nil {
		return err
	}
	e.retireAll()
	e.St = NewStorage(e.L)
	e.quiet = e.Or.QuietAfterEvict
	e.Stats.label("reopen")
	e.Stats.Reopens++
	e.Stats.pendingDecodedMutation = true
	return nil
}

// Evict commits and drops the read cache (R2).
func (e *Engine) Evict(workers int) error {
	if err := e.Commit(workers); err != nil {
		return err
	}
	if workers == 3 || workers == 8 {
		// the client keeps the handles of its ROOT containers across the cache drop (as cmd/smoke and the repository's
		// benchmarks do): the handle holds the root slab, every other slab is read again from the ledger.  Handles of
		// nested containers are dropped as before (R2: their slab may be decoded a second time inside its parent).
		for _, r := range e.Roots {
			for _, c := range r.Children() {
				retire(c)
			}
		}
		e.Stats.label("evict_keeping_root_handles")
	} else {
		e.retireAll()
	}
	e.St.DropCache()
	e.quiet = e.Or.QuietAfterEvict
	e.Stats.label("evict")
	e.Stats.Reopens++
	e.Stats.pendingDecodedMutation = true
	return nil
}

// checkFresh opens a brand-new storage over ledger l and compares every non-temporary root with roots.
func (e *Engine) checkFresh(l *Ledger, roots []*Node, when string) error {
	st := NewStorage(l)
	for _, r := range roots {
		if r.Addr == atree.AddressUndefined {
			continue
		}
		var v atree.Value
		var err error
		if r.IsMap {
			v, err = atree.NewMapWithRootID(st, r.Root, e.digesterFor(r))
		} else {
			v, err = atree.NewArrayWithRootID(st, r.Root)
		}
		if err != nil {
			return e.viol("%s: a new storage over the ledger cannot open root %s: %v", when, r.Root, err)
		}
		if err := cmpValue(v, r, fmt.Sprintf("%s: root#%d from a new storage", when, r.ID), e.co()); err != nil {
			return e.viol("%v", err)
		}
	}
	// "precisely the state of the last commit": the registers are exactly the slabs reachable from the live
	// owned roots (the engine disposes of or keeps as a root everything the library hands back, R6)
	w := newWalk(st)
	for _, r := range roots {
		if r.Addr == atree.AddressUndefined {
			continue
		}
		if _, err := w.visit(r.Root, nil, false); err != nil {
			return e.viol("%s: walking root#%d on a new storage over the ledger: %v", when, r.ID, err)
		}
	}
	for _, id := range l.Keys() {
		if _, ok := w.Slabs[id]; !ok {
			return e.viol("%s: register %s is in the ledger but not reachable from the %d live roots (stale or leaked register)", when, id, len(roots))
		}
	}
	for id := range w.Slabs {
		if _, ok := l.Regs[id]; !ok {
			return e.viol("%s: slab %s is reachable on a new storage but has no register", when, id)
		}
	}
	e.Stats.label("fresh_ledger_equals_reachable")
	return nil
}

// CrashCheck: abandoning the storage now leaves exactly the last committed state.
func (e *Engine) CrashCheck() error {
	if len(e.L.Log) != e.commitLog {
		return e.viol("%d ledger writes/deletes happened outside a commit", len(e.L.Log)-e.commitLog)
	}
	if d := DiffRegs(e.commitRegs, e.L.Regs); d != "" {
		return e.viol("ledger changed between commits: %s", d)
	}
	e.Stats.CrashPoints++
	if e.St.DeltasWithoutTempAddresses() > 0 {
		e.Stats.label("crash_point_with_pending_changes")
	}
	return e.checkFresh(e.L.Clone(), e.commitModel, "crash point")
}

func (e *Engine) rootValue(r *Node) (atree.Value, error) {
	if err := e.acquire(r); err != nil {
		return nil, err
	}
	if r.IsMap {
		return r.HM, nil
	}
	return r.HA, nil
}

// CompareAll compares every root (read through its designated handle) with the model.
func (e *Engine) CompareAll() error {
	for _, r := range e.Roots {
		v, err := e.rootValue(r)
		if err != nil {
			return err
		}
		if err := cmpValue(v, r, fmt.Sprintf("root#%d", r.ID), e.co()); err != nil {
			return e.viol("%v", err)
		}
		if r.IsMap {
			if r.HM.SlabID() != r.Root {
				return e.viol("root#%d slab id changed from %s to %s", r.ID, r.Root, r.HM.SlabID())
			}
		} else if r.HA.SlabID() != r.Root {
			return e.viol("root#%d slab id changed from %s to %s", r.ID, r.Root, r.HA.SlabID())
		}
	}
	if e.Or.CheckHandles {
		for _, n := range e.allNodes() {
			if n.Parent == nil || !n.HasHandle() {
				continue
			}
			var v atree.Value = n.HA
			if n.IsMap {
				v = n.HM
			}
			if err := cmpValue(v, n, fmt.Sprintf("handle of nested#%d", n.ID), e.co()); err != nil {
				return e.viol("%v", err)
			}
		}
	}
	return nil
}

// VerifyAll runs the in-repo structural verifiers on every root.
func (e *Engine) VerifyAll() error {
	for _, r := range e.Roots {
		if _, err := e.rootValue(r); err != nil {
			return err
		}
		var err error
		if r.IsMap {
			err = atree.VerifyMap(r.HM, r.Addr, r.TI, CompareTI, e.CB.PlainHIP, true)
		} else {
			err = atree.VerifyArray(r.HA, r.Addr, r.TI, CompareTI, e.CB.PlainHIP, true)
		}
		if err != nil {
			return e.viol("in-repo verifier rejects root#%d: %v", r.ID, err)
		}
	}
	return nil
}

func storableEqual(a, b atree.Storable) bool {
	switch x := a.(type) {
	case U64:
		y, ok := b.(U64)
		return ok && x == y
	case Byte:
		y, ok := b.(Byte)
		return ok && x == y
	case Str:
		y, ok := b.(Str)
		return ok && x.S == y.S
	case SomeSt:
		y, ok := b.(SomeSt)
		return ok && storableEqual(x.S, y.S)
	case atree.SlabIDStorable:
		y, ok := b.(atree.SlabIDStorable)
		return ok && x == y
	}
	return false
}

func (e *Engine) verifySerialization() error {
	for _, r := range e.Roots {
		if r.Addr == atree.AddressUndefined {
			continue
		}
		if _, err := e.rootValue(r); err != nil {
			return err
		}
		var err error
		if r.IsMap {
			err = atree.VerifyMapSerialization(r.HM, DecMode, EncMode, DecodeStorable, DecodeTypeInfo, storableEqual)
		} else {
			err = atree.VerifyArraySerialization(r.HA, DecMode, EncMode, DecodeStorable, DecodeTypeInfo, storableEqual)
		}
		if err != nil {
			return e.viol("in-repo serialization verifier rejects root#%d: %v", r.ID, err)
		}
	}
	return nil
}

// afterStep runs the per-step oracles and label bookkeeping.
func (e *Engine) afterStep() error {
	op := e.curOp
	isSched := op != nil && (op.K == "commit" || op.K == "reopen" || op.K == "evict")
	if e.Or.NoWriteBetweenCommits && !isSched {
		if len(e.L.Log) != e.commitLog {
			last := e.L.Log[len(e.L.Log)-1]
			return e.viol("%d ledger writes/deletes happened outside a commit (last: %c %s)", len(e.L.Log)-e.commitLog, last.Op, last.ID)
		}
	}
	if err := e.observe(); err != nil {
		return err
	}
	// full comparison every CmpEvery steps; for large states the interval grows with the size so that
	// a history costs O(ops + size) comparisons instead of O(ops x size) (per-op results are always compared)
	k := e.Or.CmpEvery
	if k > 0 {
		k *= 1 + e.modelSize()/3000
	}
	full := k > 0 && (e.step+1)%k == 0
	if e.quiet {
		// after an eviction nothing is loaded: until the next commit only the operations themselves touch the
		// storage, so that slabs are mutated and removed while they are NOT in the read cache
		e.Stats.label("ops_on_cold_storage")
		return nil
	}
	if full {
		if err := e.CompareAll(); err != nil {
			return err
		}
	}
	// whole-state structural oracles: every step on small states, every (1+size/1500)-th step on large ones
	due := (e.step+1)%(1+e.modelSize()/1500) == 0
	if e.Or.Verify && due {
		if err := e.VerifyAll(); err != nil {
			return err
		}
	}
	if (e.Or.Tree || e.Or.Sizes || e.Or.Health || e.Or.Inline || e.Or.RoundTrip) && due {
		if err := e.checkStructure(); err != nil {
			return err
		}
	}
	if e.Or.Iter && full {
		if err := e.checkIterators(); err != nil {
			return err
		}
	}
	if e.Or.CrashEvery > 0 && ((e.step+1)%e.Or.CrashEvery == 0 || isSched) {
		// (also immediately after every commit: the ledger must then hold exactly the new state)
		if err := e.CrashCheck(); err != nil {
			return err
		}
	}
	if e.Or.EveryStep != nil {
		if err := e.Or.EveryStep(e); err != nil {
			return err
		}
	}
	return nil
}

// Finish runs the end-of-history checks.
func (e *Engine) Finish() error {
	if err := e.CompareAll(); err != nil {
		return err
	}
	if e.Or.Verify {
		if err := e.VerifyAll(); err != nil {
			return err
		}
	}
	if e.Or.Tree || e.Or.Sizes || e.Or.Health || e.Or.Inline || e.Or.RoundTrip {
		if err := e.checkStructure(); err != nil {
			return err
		}
	}
	if e.Or.Iter {
		if err := e.checkIterators(); err != nil {
			return err
		}
	}
	return nil
}

// observe derives the labels that describe what the history reached (used for the non-triviality rules).
func (e *Engine) observe() error {
	for _, r := range e.Roots {
		if err := e.acquire(r); err != nil {
			return err
		}
		single := true
		if r.IsMap {
			single = r.HM.IsWithinSingleSlab()
		} else {
			single = r.HA.IsWithinSingleSlab()
		}
		slabs := 1
		if !single {
			slabs = 2
		}
		if r.LastSlabs == 1 && slabs == 2 {
			e.Stats.label("root_split")
			r.Shape++
		}
		if r.LastSlabs == 2 && slabs == 1 {
			e.Stats.label("root_promotion")
			r.Shape++
		}
		if slabs == 2 {
			e.Stats.label("multi_slab")
			if e.curOp != nil && (e.curOp.K == "rem" || e.curOp.K == "remN" || e.curOp.K == "mrem" || e.curOp.K == "mremN" || e.curOp.K == "set" || e.curOp.K == "mset" || e.curOp.K == "setN" || e.curOp.K == "mupdN") {
				e.Stats.label("shrink_or_overwrite_in_multi_slab")
			}
			if e.Stats.pendingDecodedMutation && e.curOp != nil && isMutation(e.curOp.K) {
				e.Stats.label("mutation_of_decoded_multi_slab")
				e.Stats.pendingDecodedMutation = false
			}
		}
		r.LastSlabs = slabs
	}
	for _, n := range e.allNodes() {
		if n.Parent == nil || !n.HasHandle() {
			continue
		}
		inl := false
		if n.IsMap {
			inl = n.HM.Inlined()
		} else {
			inl = n.HA.Inlined()
		}
		if inl {
			if n.SeenStandalone && !n.WasInlined {
				e.Stats.label("standalone_to_inline")
			}
			n.SeenInline = true
		} else {
			if n.SeenInline && n.WasInlined {
				e.Stats.label("inline_to_standalone")
			}
			n.SeenStandalone = true
		}
		n.WasInlined = inl
		if e.Stats.pendingDecodedMutation && e.curOp != nil && isMutation(e.curOp.K) {
			e.Stats.label("mutation_of_decoded_nested")
			e.Stats.pendingDecodedMutation = false
		}
	}
	return nil
}

func isMutation(k string) bool {
	switch k {
	case "app", "ins", "set", "rem", "pop", "appN", "remN", "setN", "mupdN", "grow", "mgrow", "mset", "mrem", "mpop", "msetN", "mremN", "styp":
		return true
	}
	return false
}

// emptyEverything empties every root (alternating PopIterate and one-by-one removal)
// and checks that exactly one register per root remains (C09).
func (e *Engine) emptyEverything() error {
	e.curOp = nil
	for i, r := range e.Roots {
		if err := e.acquire(r); err != nil {
			return err
		}
		kind := "pop"
		if r.IsMap {
			kind = "mpop"
		}
		if i%2 == 1 {
			kind = "remN"
			if r.IsMap {
				kind = "mremN"
			}
		}
		op := &Op{K: kind, N: r.Count() + 1, D: 2 + i%2}
		e.curOp = op
		var err error
		if r.IsMap {
			err = e.mapOp(r, op)
		} else {
			err = e.arrayOp(r, op)
		}
		if err != nil {
			return err
		}
		if r.Count() != 0 {
			return e.viol("harness: root not emptied")
		}
	}
	e.curOp = nil
	if err := e.checkStructure(); err != nil {
		return err
	}
	if err := e.Commit(0); err != nil {
		return err
	}
	nonTemp := 0
	for _, r := range e.Roots {
		if r.Addr != addrOf(0) {
			nonTemp++
		}
	}
	if len(e.L.Regs) != nonTemp {
		return e.viol("after emptying every container %d registers remain for %d roots: %v", len(e.L.Regs), nonTemp, e.L.Keys())
	}
	e.Stats.label("emptied_all")
	return nil
}

func (e *Engine) modelSize() int {
	n := 0
	for _, r := range e.Roots {
		n += r.Count()
	}
	return n
}
