package harness

// c15_wide.go: one write set with more pending slabs than any internal batching constant a commit could use
// (tens of thousands of registers in ONE FastCommit / NondeterministicFastCommit), with an optional injected
// ledger failure in the middle and a retry.  Oracle: the ledger's own write log and register map against the
// list of stored versions; Deltas() against the number of unacknowledged entries.

import (
	"bytes"
	"encoding/binary"
	"errors"
	"fmt"

	"github.com/onflow/atree"
)

func c15WideID(j int) atree.SlabID {
	var idx atree.SlabIndex
	binary.BigEndian.PutUint64(idx[:], uint64(j+1))
	return atree.NewSlabID(addrOf(uint64(1+j%2)), idx)
}

func runC15Wide(cs *SCase) (*CaseStats, error) {
	st := newCaseStats()
	st.label("wide_commit")
	l := NewLedger()
	s := NewStorage(l)
	W := cs.Wide
	want := map[atree.SlabID]int{} // committed versions (absent = no register)
	pend := map[atree.SlabID]int{} // pending: version or 0 = removal

	commit := func(round int, ndet bool, workers int, failPos int) error {
		fail := func(f string, a ...any) error {
			return fmt.Errorf("wide commit (%d slabs) round %d: %s", W, round, fmt.Sprintf(f, a...))
		}
		l.FailAt = nil
		injected := failPos > 0 && failPos <= len(pend)
		if injected {
			l.FailAt = map[int]bool{l.Writes + failPos: true}
		}
		logStart := len(l.Log)
		var err error
		if ndet {
			err = s.NondeterministicFastCommit(workers)
		} else {
			err = s.FastCommit(workers)
		}
		l.FailAt = nil
		if injected {
			var x *atree.ExternalError
			if err == nil || !errors.As(err, &x) || !errors.Is(err, ErrInjected) {
				return fail("commit with a failing ledger write (write #%d) returned %v, expected an external error wrapping the ledger's", failPos, err)
			}
			st.label("failed_commit")
		} else if err != nil {
			return fail("commit failed: %v", err)
		}
		seen := map[atree.SlabID]bool{}
		for x, le := range l.Log[logStart:] {
			if _, ok := pend[le.ID]; !ok && !seen[le.ID] {
				return fail("commit wrote %s, which is not in the write set", le.ID)
			}
			if seen[le.ID] {
				return fail("commit wrote %s twice", le.ID)
			}
			seen[le.ID] = true
			if !ndet && x > 0 && l.Log[logStart+x-1].ID.Compare(le.ID) >= 0 {
				return fail("deterministic commit wrote %s before %s", l.Log[logStart+x-1].ID, le.ID)
			}
			if le.Failed {
				continue
			}
			if v := pend[le.ID]; v == 0 {
				if le.Op != 'R' {
					return fail("removal of %s was committed as a write", le.ID)
				}
				delete(want, le.ID)
			} else {
				want[le.ID] = v
			}
			delete(pend, le.ID)
		}
		if !injected && len(pend) != 0 {
			return fail("successful commit left %d of the pending slabs unwritten", len(pend))
		}
		if got := s.Deltas(); got != uint(len(pend)) {
			return fail("Deltas() = %d after the commit, %d entries were not acknowledged by the ledger", got, len(pend))
		}
		if len(l.Regs) != len(want) {
			return fail("ledger holds %d registers, expected %d", len(l.Regs), len(want))
		}
		for id, v := range want {
			if b := l.Regs[id]; !bytes.Equal(b, c15Register(v)) {
				return fail("register %s holds %x, expected version %d", id, b, v)
			}
		}
		return nil
	}

	for j := 0; j < W; j++ {
		id, v := c15WideID(j), 1+j%3
		if err := s.Store(id, c15Slab(id, v)); err != nil {
			return st, fmt.Errorf("wide: Store failed: %v", err)
		}
		pend[id] = v
	}
	workers := 1 + cs.WN%32
	if err := commit(1, cs.WK, workers, cs.WF); err != nil {
		return st, err
	}
	if len(pend) > 0 { // retry after the injected failure
		if err := commit(1, cs.WK, workers, 0); err != nil {
			return st, err
		}
	}
	st.label("commit_with_changes")
	// round 2: a third removed, the rest rewritten
	for j := 0; j < W; j++ {
		id := c15WideID(j)
		switch j % 3 {
		case 0:
			if err := s.Remove(id); err != nil {
				return st, fmt.Errorf("wide: Remove failed: %v", err)
			}
			pend[id] = 0
		default: // rewritten (every third one with the version it already has), so that the whole set is pending again
			v := 1 + (j/3)%3
			if err := s.Store(id, c15Slab(id, v)); err != nil {
				return st, fmt.Errorf("wide: Store failed: %v", err)
			}
			pend[id] = v
		}
	}
	st.label("remove")
	f2 := 0
	if cs.WF > 0 {
		f2 = 1 + (cs.WF*7)%len(pend)
	}
	if err := commit(2, !cs.WK, workers, f2); err != nil {
		return st, err
	}
	if len(pend) > 0 {
		if err := commit(2, !cs.WK, workers, 0); err != nil {
			return st, err
		}
	}
	st.Ops = 2 * W
	// a fresh storage over the ledger sees exactly the committed versions (sample)
	s2 := NewStorage(l)
	for j := 0; j < W; j += 1 + W/997 {
		id := c15WideID(j)
		got, found, err := s2.Retrieve(id)
		if err != nil {
			return st, fmt.Errorf("wide: Retrieve failed: %v", err)
		}
		if c15Version(got) != want[id] || found != (want[id] != 0) {
			return st, fmt.Errorf("wide commit (%d slabs): fresh storage reads version %d for %s, committed %d", W, c15Version(got), id, want[id])
		}
	}
	return st, nil
}
