package harness

// regparse.go: an independent parser of atree registers (the encoded form of a
// slab).  It uses nothing from the library: a small CBOR item scanner plus the
// documented fixed layouts.  The structural (C05), size (C06) and flag (C07)
// oracles work on its output.

import (
	"encoding/binary"
	"errors"
	"fmt"
)

var errShort = errors.New("truncated")

// cborHead decodes the head at b[off:]: major type, argument, head length.
func cborHead(b []byte, off int) (major byte, arg uint64, hl int, err error) {
	if off >= len(b) {
		return 0, 0, 0, errShort
	}
	ib := b[off]
	major = ib >> 5
	ai := ib & 0x1f
	switch {
	case ai < 24:
		return major, uint64(ai), 1, nil
	case ai == 24:
		if off+2 > len(b) {
			return 0, 0, 0, errShort
		}
		return major, uint64(b[off+1]), 2, nil
	case ai == 25:
		if off+3 > len(b) {
			return 0, 0, 0, errShort
		}
		return major, uint64(binary.BigEndian.Uint16(b[off+1:])), 3, nil
	case ai == 26:
		if off+5 > len(b) {
			return 0, 0, 0, errShort
		}
		return major, uint64(binary.BigEndian.Uint32(b[off+1:])), 5, nil
	case ai == 27:
		if off+9 > len(b) {
			return 0, 0, 0, errShort
		}
		return major, binary.BigEndian.Uint64(b[off+1:]), 9, nil
	}
	return 0, 0, 0, fmt.Errorf("indefinite or reserved additional info %d at %d", ai, off)
}

// cborItemLen returns the encoded length of the complete data item at b[off:].
func cborItemLen(b []byte, off int) (int, error) {
	return cborItemLenD(b, off, 0)
}

func cborItemLenD(b []byte, off int, depth int) (int, error) {
	if depth > 256 {
		return 0, errors.New("nesting too deep")
	}
	major, arg, hl, err := cborHead(b, off)
	if err != nil {
		return 0, err
	}
	switch major {
	case 0, 1, 7:
		return hl, nil
	case 2, 3:
		if arg > uint64(len(b)) || off+hl+int(arg) > len(b) {
			return 0, errShort
		}
		return hl + int(arg), nil
	case 4, 5:
		n := arg
		if major == 5 {
			n *= 2
		}
		if n > uint64(len(b)) {
			return 0, errShort
		}
		p := off + hl
		for i := uint64(0); i < n; i++ {
			l, err := cborItemLenD(b, p, depth+1)
			if err != nil {
				return 0, err
			}
			p += l
		}
		return p - off, nil
	case 6:
		l, err := cborItemLenD(b, off+hl, depth+1)
		if err != nil {
			return 0, err
		}
		return hl + l, nil
	}
	return 0, fmt.Errorf("bad major %d", major)
}

const (
	kArrData = iota + 1
	kArrMeta
	kMapData
	kMapMeta
	kCollGroup
	kStorable
)

var kindName = map[int]string{kArrData: "array-data", kArrMeta: "array-index", kMapData: "map-data", kMapMeta: "map-index", kCollGroup: "collision-group", kStorable: "large-value"}

type ChildHdr struct {
	Index    [8]byte
	Count    uint32 // arrays
	FirstKey uint64 // maps
	Size     uint16
}

const (
	elSingle = iota
	elInlineGroup
	elExternalGroup
)

type ElemNode struct {
	Kind           int
	Len            int // encoded length of the whole element
	KeyOff, KeyLen int
	ValOff, ValLen int
	Group          *ElemsNode // inline group
	ExtID          [16]byte   // external group
}

type ElemsNode struct {
	Level int
	HKeys []uint64
	Elems []ElemNode
	Len   int
}

type Reg struct {
	Raw                                         []byte
	Version                                     byte
	Kind                                        int
	Root, HasPointers, AnySize, HasInl, HasNext bool
	ExtraOff, ExtraLen                          int
	InlExtraOff, InlExtraLen                    int
	Next                                        [16]byte
	ContentOff                                  int
	// index slabs
	ChildAddr [8]byte
	Children  []ChildHdr
	// array data
	ElemOffs []int
	ElemLens []int
	// map data / collision group
	Map *ElemsNode
}

func parseRegister(b []byte) (*Reg, error) {
	if len(b) < 2 {
		return nil, errShort
	}
	r := &Reg{Raw: b}
	r.Version = b[0] >> 4
	if r.Version != 1 {
		return nil, fmt.Errorf("unexpected version %d", r.Version)
	}
	r.HasNext = b[0]&0x02 != 0
	r.HasInl = b[0]&0x01 != 0
	f := b[1]
	r.Root = f&0x80 != 0
	r.HasPointers = f&0x40 != 0
	r.AnySize = f&0x20 != 0
	switch f & 0x1f {
	case 0x00:
		r.Kind = kArrData
	case 0x01:
		r.Kind = kArrMeta
	case 0x08:
		r.Kind = kMapData
	case 0x09:
		r.Kind = kMapMeta
	case 0x0b:
		r.Kind = kCollGroup
	case 0x1f:
		r.Kind = kStorable
	default:
		return nil, fmt.Errorf("unknown slab type bits %#x", f&0x1f)
	}
	p := 2
	if r.Kind == kStorable {
		l, err := cborItemLen(b, p)
		if err != nil {
			return nil, fmt.Errorf("large-value content: %w", err)
		}
		if p+l != len(b) {
			return nil, fmt.Errorf("large-value slab has %d trailing bytes", len(b)-p-l)
		}
		r.ContentOff = p
		return r, nil
	}
	if r.Root {
		l, err := cborItemLen(b, p)
		if err != nil {
			return nil, fmt.Errorf("extra data: %w", err)
		}
		r.ExtraOff, r.ExtraLen = p, l
		p += l
	}
	if r.HasInl {
		l, err := cborItemLen(b, p)
		if err != nil {
			return nil, fmt.Errorf("inlined extra data: %w", err)
		}
		r.InlExtraOff, r.InlExtraLen = p, l
		p += l
	}
	switch r.Kind {
	case kArrMeta, kMapMeta:
		if r.HasNext || r.HasInl {
			return nil, errors.New("index slab with next/inlined flags")
		}
		if p+10 > len(b) {
			return nil, errShort
		}
		copy(r.ChildAddr[:], b[p:p+8])
		n := int(binary.BigEndian.Uint16(b[p+8:]))
		p += 10
		hs := 14
		if r.Kind == kMapMeta {
			hs = 18
		}
		if p+n*hs != len(b) {
			return nil, fmt.Errorf("index slab: %d children need %d bytes, %d left", n, n*hs, len(b)-p)
		}
		for i := 0; i < n; i++ {
			var c ChildHdr
			copy(c.Index[:], b[p:p+8])
			if r.Kind == kArrMeta {
				c.Count = binary.BigEndian.Uint32(b[p+8:])
				c.Size = binary.BigEndian.Uint16(b[p+12:])
			} else {
				c.FirstKey = binary.BigEndian.Uint64(b[p+8:])
				c.Size = binary.BigEndian.Uint16(b[p+16:])
			}
			r.Children = append(r.Children, c)
			p += hs
		}
		return r, nil
	}
	if r.HasNext {
		if p+16 > len(b) {
			return nil, errShort
		}
		copy(r.Next[:], b[p:p+16])
		p += 16
	}
	r.ContentOff = p
	switch r.Kind {
	case kArrData:
		if p+3 > len(b) || b[p] != 0x99 {
			return nil, errors.New("array data: bad element array head")
		}
		n := int(binary.BigEndian.Uint16(b[p+1:]))
		p += 3
		for i := 0; i < n; i++ {
			l, err := cborItemLen(b, p)
			if err != nil {
				return nil, fmt.Errorf("array element %d: %w", i, err)
			}
			r.ElemOffs = append(r.ElemOffs, p)
			r.ElemLens = append(r.ElemLens, l)
			p += l
		}
		if p != len(b) {
			return nil, fmt.Errorf("array data slab has %d trailing bytes", len(b)-p)
		}
		return r, nil
	case kMapData, kCollGroup:
		en, err := parseElems(b, p, 0)
		if err != nil {
			return nil, err
		}
		if p+en.Len != len(b) {
			return nil, fmt.Errorf("map data slab has %d trailing bytes", len(b)-p-en.Len)
		}
		r.Map = en
		return r, nil
	}
	return nil, errors.New("unreachable")
}

func parseElems(b []byte, off int, depth int) (*ElemsNode, error) {
	if depth > 16 {
		return nil, errors.New("collision groups nested too deep")
	}
	p := off
	if p+2 > len(b) || b[p] != 0x83 {
		return nil, errors.New("elements: expected 3-element array")
	}
	en := &ElemsNode{Level: int(b[p+1])}
	if b[p+1] > 23 {
		return nil, errors.New("elements: level not a small uint")
	}
	p += 2
	major, arg, hl, err := cborHead(b, p)
	if err != nil || major != 2 {
		return nil, errors.New("elements: expected digest byte string")
	}
	if arg%8 != 0 || p+hl+int(arg) > len(b) {
		return nil, errors.New("elements: bad digest byte string length")
	}
	for i := 0; i < int(arg)/8; i++ {
		en.HKeys = append(en.HKeys, binary.BigEndian.Uint64(b[p+hl+i*8:]))
	}
	p += hl + int(arg)
	if p+3 > len(b) || b[p] != 0x99 {
		return nil, errors.New("elements: bad element array head")
	}
	n := int(binary.BigEndian.Uint16(b[p+1:]))
	p += 3
	for i := 0; i < n; i++ {
		if p >= len(b) {
			return nil, errShort
		}
		var el ElemNode
		start := p
		switch {
		case b[p] == 0x82:
			el.Kind = elSingle
			kl, err := cborItemLen(b, p+1)
			if err != nil {
				return nil, fmt.Errorf("map key: %w", err)
			}
			vl, err := cborItemLen(b, p+1+kl)
			if err != nil {
				return nil, fmt.Errorf("map value: %w", err)
			}
			el.KeyOff, el.KeyLen, el.ValOff, el.ValLen = p+1, kl, p+1+kl, vl
			p += 1 + kl + vl
		case b[p] == 0xd8 && p+1 < len(b) && b[p+1] == 253:
			el.Kind = elInlineGroup
			g, err := parseElems(b, p+2, depth+1)
			if err != nil {
				return nil, err
			}
			el.Group = g
			p += 2 + g.Len
		case b[p] == 0xd8 && p+1 < len(b) && b[p+1] == 254:
			el.Kind = elExternalGroup
			// d8 fe d8 ff 50 <16 bytes>
			if p+21 > len(b) || b[p+2] != 0xd8 || b[p+3] != 0xff || b[p+4] != 0x50 {
				return nil, errors.New("external collision group: bad slab id")
			}
			copy(el.ExtID[:], b[p+5:p+21])
			p += 21
		default:
			return nil, fmt.Errorf("map element %d: unexpected head %#x", i, b[p])
		}
		el.Len = p - start
		en.Elems = append(en.Elems, el)
	}
	en.Len = p - off
	if len(en.HKeys) != 0 && len(en.HKeys) != len(en.Elems) {
		return nil, fmt.Errorf("elements: %d digests for %d elements", len(en.HKeys), len(en.Elems))
	}
	return en, nil
}

// countEntries counts key/value pairs in an elements tree (external groups count 0 here).
func (en *ElemsNode) countEntries() int {
	n := 0
	for i := range en.Elems {
		switch en.Elems[i].Kind {
		case elSingle:
			n++
		case elInlineGroup:
			n += en.Elems[i].Group.countEntries()
		}
	}
	return n
}
