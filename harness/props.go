package harness

// props.go: registry of properties and the common rapid / replay runners.

import (
	"encoding/json"
	"fmt"
	"os"
	"path/filepath"
	"runtime"
	"runtime/debug"
	"strconv"
	"sync"
	"sync/atomic"
	"testing"
	"time"

	"pgregory.net/rapid"
)

// PropDef describes how one property is generated, run and judged.
type PropDef struct {
	ID         string
	New        func() any                      // empty case, for replay decoding
	Gen        func(t *rapid.T) any            // draw a case
	Run        func(c any) (*CaseStats, error) // interpret; error = violation
	Nontrivial func(s *CaseStats) bool
	Rule       string
	Slab       func(c any) uint32
}

var registry = map[string]*PropDef{}

func register(p *PropDef) { registry[p.ID] = p }

// safeRun converts a panic inside the library or the harness into a violation with a stack.
func safeRun(p *PropDef, c any) (st *CaseStats, err error) {
	defer func() {
		if r := recover(); r != nil {
			err = fmt.Errorf("panic: %v\n%s", r, debug.Stack())
		}
	}()
	return p.Run(c)
}

func replayPathFor(prop string) string {
	tag := os.Getenv("VERIF_SHARD")
	if tag == "" {
		tag = "0"
	}
	return filepath.Join(ReplayDir(), fmt.Sprintf("%s-shard%s.json", prop, tag))
}

// runRapid is the body of every TestCxx.
func runRapid(t *testing.T, id string) {
	p := registry[id]
	if p == nil {
		t.Fatalf("unknown property %s", id)
	}
	rp := replayPathFor(id)
	_ = os.Remove(rp)
	cur := rp + ".current"
	mark := id != "C19" && id != "C16" // C19 has no goroutines and recovers every panic in-process; C16 writes its own marker
	if id != "C19" {                   // C19 has its own, much tighter, per-input watchdog
		startStuckWatchdog(cur)
	}
	rapid.Check(t, func(rt *rapid.T) {
		c := p.Gen(rt)
		caseStart.Store(time.Now().UnixNano())
		defer caseStart.Store(0)
		if mark {
			// the case that is running when a panic in a goroutine started by the library (commit / preload workers)
			// kills the process becomes the replay file
			if b, err := json.Marshal(map[string]any{"property": id, "failure": "the process died (unrecovered panic in a library goroutine) while this case was running", "case": c}); err == nil {
				_ = os.MkdirAll(ReplayDir(), 0o755)
				_ = os.WriteFile(cur, b, 0o644)
			}
		}
		st, err := safeRun(p, c)
		if err != nil {
			_ = os.MkdirAll(ReplayDir(), 0o755)
			b, _ := json.MarshalIndent(map[string]any{"property": id, "failure": err.Error(), "case": c}, "", " ")
			_ = os.WriteFile(rp, b, 0o644)
			rt.Fatalf("property %s violated: %v\nVERIF-REPLAY %s", id, err, rp)
		}
		slab := uint32(0)
		if p.Slab != nil {
			slab = p.Slab(c)
		}
		Emit(id, c, slab, st, p.Nontrivial(st), p.Rule)
	})
}

var (
	caseStart atomic.Int64
	stuckOnce sync.Once
)

// stuckLimit is the time one case may take before the process dumps all goroutines and exits: cases take milliseconds
// to seconds (tens of seconds for the largest thorough cases); a library call that waits for its own workers forever
// must become a verdict instead of a test deadline.  Not yet a verdict: the driver re-runs the case alone.
func stuckLimit() time.Duration {
	if s := os.Getenv("VERIF_STUCK_SECONDS"); s != "" {
		if n, err := strconv.Atoi(s); err == nil && n > 0 {
			return time.Duration(n) * time.Second
		}
	}
	if thorough() {
		return 1500 * time.Second
	}
	return 400 * time.Second
}

func startStuckWatchdog(marker string) {
	stuckOnce.Do(func() {
		limit := stuckLimit()
		go func() {
			for {
				time.Sleep(2 * time.Second)
				s := caseStart.Load()
				if s != 0 && time.Since(time.Unix(0, s)) > limit {
					buf := make([]byte, 4<<20)
					n := runtime.Stack(buf, true)
					fmt.Printf("VERIF-STUCK %s after %s\n%s\nVERIF-STUCK-END\n", marker, limit, buf[:n])
					os.Exit(4)
				}
			}
		}()
	})
}

// TestReplay-style entry: run one saved case without rapid.
func runReplay(t *testing.T, path string) {
	b, err := os.ReadFile(path)
	if err != nil {
		t.Fatalf("cannot read replay file: %v", err)
	}
	var w struct {
		Property string          `json:"property"`
		Case     json.RawMessage `json:"case"`
	}
	if err := json.Unmarshal(b, &w); err != nil {
		t.Fatalf("bad replay file: %v", err)
	}
	p := registry[w.Property]
	if p == nil {
		t.Fatalf("unknown property %q in replay file", w.Property)
	}
	c := p.New()
	if err := json.Unmarshal(w.Case, c); err != nil {
		t.Fatalf("bad case in replay file: %v", err)
	}
	if w.Property != "C19" {
		startStuckWatchdog(path)
		caseStart.Store(time.Now().UnixNano())
		defer caseStart.Store(0)
	}
	if _, err := safeRun(p, c); err != nil {
		t.Fatalf("property %s violated: %v\nVERIF-REPLAY %s", w.Property, err, path)
	}
}

func caseSlab(c any) uint32 {
	if cc, ok := c.(*Case); ok {
		return cc.Cfg.Slab
	}
	return 0
}

// minimizeCase: greedy delta debugging over the op list of an engine case (used after rapid's
// own shrinking, which works under a time budget): remove chunks, then single ops, while the
// case keeps failing.
func minimizeCase(p *PropDef, c *Case) (*Case, string) {
	fails := func(x *Case) (bool, string) {
		cp := *x
		_, err := safeRun(p, &cp)
		if err != nil {
			return true, err.Error()
		}
		return false, ""
	}
	ok, msg := fails(c)
	if !ok {
		return c, ""
	}
	cur := *c
	for chunk := len(cur.Ops) / 2; chunk >= 1; chunk /= 2 {
		for i := 0; i+chunk <= len(cur.Ops); {
			t := cur
			t.Ops = append(append([]Op(nil), cur.Ops[:i]...), cur.Ops[i+chunk:]...)
			if f, m := fails(&t); f {
				cur, msg = t, m
			} else {
				i += chunk
			}
		}
	}
	// simplify values of the remaining ops
	for i := range cur.Ops {
		if cur.Ops[i].V != nil && cur.Ops[i].V.K != "u" {
			t := cur
			t.Ops = append([]Op(nil), cur.Ops...)
			t.Ops[i].V = &VD{K: "u"}
			if f, m := fails(&t); f {
				cur, msg = t, m
			}
		}
		if cur.Ops[i].N > 1 {
			for _, n := range []int{1, cur.Ops[i].N / 2} {
				t := cur
				t.Ops = append([]Op(nil), cur.Ops...)
				t.Ops[i].N = n
				if f, m := fails(&t); f {
					cur, msg = t, m
					break
				}
			}
		}
	}
	return &cur, msg
}
