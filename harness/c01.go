package harness

import "pgregory.net/rapid"

// C01: array behaves as a plain sequence under every operation history.

func genC01() *GenCfg {
	g := &GenCfg{
		Slabs:  quickSlabs,
		MinOps: 1, MaxOps: 60,
		W: map[string]int{
			"app": 14, "ins": 12, "set": 10, "rem": 12, "get": 6, "pop": 2, "appN": 6, "remN": 5, "styp": 2, "grow": 2, "setN": 3, "shrink": 1,
			"badget": 2, "badset": 2, "badins": 2, "badrem": 2, "reget": 2,
			"reopen": 2, "commit": 1, "evict": 1,
		},
		Roots:     [][]RootSpec{{{K: "arr", Addr: 1, TI: 1}}, {{K: "arr", Addr: 1, TI: 1}}, {{K: "arr", Addr: 1, TI: 1}}, {{K: "arr", Addr: 0, TI: 1}}},
		NondetPct: 30,
		MaxBulk:   120,
		Keys:      []int{48},
		ValW: map[string]int{"u": 10, "s0": 4, "s1": 4, "s2": 3, "s3": 2, "s4": 2, "s5": 2, "s6": 1, "s7": 3,
			"some": 3, "arr": 3, "map": 2, "cmap": 1},
		MaxDepth: 2, MaxElems: 5,
		AcqW: [3]int{8, 1, 1},
		Keep: 15, // some handed-back containers are kept and used further through their old handles
	}
	if thorough() {
		g.Slabs = allSlabs
		g.SlabAny = true
		g.MaxOps = 160
		g.MaxBulk = 1500
	}
	return g
}

func init() {
	g := genC01()
	register(&PropDef{
		ID:  "C01",
		New: func() any { return &Case{} },
		Gen: func(t *rapid.T) any { return g.genCase(t, "C01") },
		Run: func(c any) (*CaseStats, error) {
			cs := c.(*Case)
			e, err := NewEngine(cs.Cfg, Oracles{CmpEvery: 1, CheckHandles: true})
			if err != nil {
				return nil, err
			}
			if err := e.Run(cs.Ops); err != nil {
				return e.Stats, err
			}
			// the array can always be reopened by its root identifier
			if err := e.Commit(0); err != nil {
				return e.Stats, err
			}
			if err := e.checkFresh(e.L, e.Roots, "end of history"); err != nil {
				return e.Stats, err
			}
			return e.Stats, nil
		},
		Nontrivial: func(s *CaseStats) bool {
			return s.Has("multi_slab") && s.Has("shrink_or_overwrite_in_multi_slab")
		},
		Rule: "history reaches a multi-slab array and then removes/overwrites elements in it (merge/borrow reachable); distinct = distinct op lists",
		Slab: caseSlab,
	})
}
