#!/usr/bin/env python3
"""usage: tools_seedtask.py <property id> <tag>
Creates a scratch worktree /tmp/seed_<tag> of /repo HEAD and writes /tmp/seed_<tag>/_TASK.md: the task text for a
fresh sub-agent.  The task contains the property text and a list of change kinds already collected for it (so that
the next change is different) - nothing about the checks in /verif."""
import json, os, subprocess, sys, glob

pid, tag = sys.argv[1], sys.argv[2]
extra = sys.argv[3] if len(sys.argv) > 3 else ""
multi = int(os.environ.get("SEED_MULTI", "1"))
prop = None
for l in open('/verif/properties.jsonl'):
    p = json.loads(l)
    if p['id'] == pid:
        prop = p
wt = '/tmp/seed_' + tag
if not os.path.exists(wt):
    subprocess.check_call(['git', '-C', '/repo', 'worktree', 'add', '-q', '--detach', wt, 'HEAD'])
have = []
for mp in sorted(glob.glob('/verif/seeded/*/meta.json')):
    m = json.load(open(mp))
    if m['breaks_property'] == pid:
        n = m.get('needs_short') or m.get('needs_to_manifest', '')
        if n.startswith('see notes'):
            try:
                n = open(os.path.dirname(mp) + '/notes.md').readline().lstrip('# ').strip()
            except OSError:
                pass
        have.append('- ' + n[:400])
mech = '\n'.join('- %s (%s)' % (x['name'], x['where']) for x in prop['anchors'].get('mechanism', []))
txt = f"""# Task: seed one property-breaking change into onflow/atree

You work ONLY inside the scratch git worktree `{wt}` (a checkout of the Go library onflow/atree: scalable arrays and
ordered maps stored as slab trees, CBOR-encoded into ledger registers).  Do not read or write `/repo` or `/verif`.
No network.  Go environment for every shell call: `export GOFLAGS=-mod=mod GOPROXY=off` (leave GOTOOLCHAIN and
GOSUMDB unset; the right toolchain is selected automatically).

## The property

**{prop['title']}**

{prop['statement']}

Quantified over: {prop['quantifier']['text']}

Mechanisms the property rests on (file:lines in this checkout):
{mech}

## What to produce

{("UP TO %d DIFFERENT changes (different mechanisms, different functions; deliver each in its own sub-directory `_out/m1`, `_out/m2`, ... and keep the worktree clean between them with `git diff > file` + `git checkout -- .` (do NOT use `git stash`: the stash is shared by all worktrees of the repository and other workers run in parallel)), each of them a" % multi) if multi > 1 else "ONE"} realistic change to the library's NON-test source files (the kind of plausible optimisation, refactor, clean-up
or "bug fix" a maintainer could write and a reviewer could accept) that **breaks the property above** while

1. the module still compiles (`go build ./...` and `go vet` not required),
2. the ENTIRE existing test suite still passes: `go test -vet=off -count=1 -timeout 25m ./...` (takes 4-10 minutes on this
   loaded machine; parts of it are randomised{", run it once per change" if multi > 1 else ", so run it twice with your final change"} and report the results),
3. the breakage needs something SPECIFIC to manifest - a particular multi-step sequence of operations, an unusual
   input or size, a particular configuration (slab size, collision pattern, nesting, wrapped values ...), a fault or
   crash at a particular point, a particular interleaving, or two cooperating edits that each look fine alone.
   It must NOT be something that ordinary use exposes at once (if a trivial three-line program trips it, or most
   histories trip it, it is too shallow - find something narrower).
   It must be a genuine violation of the property as stated (not of something stronger).

Changes of these kinds have already been collected for this property - produce something with a DIFFERENT mechanism
and a different location in the code:
{chr(10).join(have) if have else '- (none yet)'}
{extra}

## Deliverables (write them to `{wt}/_out/`)

* `patch.diff` - `git diff` of your change (non-test files only; must apply with `git apply` to a clean checkout of HEAD).
* `demo_test.go` - a Go test file in package `atree_test` (it will be copied into the repository root as
  `zz_seeded_demo_test.go`) containing `func TestSeededDemo(t *testing.T)` that PASSES on the unchanged tree and FAILS
  with your patch, deterministically.  It may use the exported API, `test_utils` and everything `export_test.go` exports.
  The test should show the property violation itself (wrong content, wrong bytes, wrong error, lost data ...).
* `notes.md` - what you changed, why it breaks the property, exactly what it needs in order to manifest, and the
  results of the two full-suite runs.

Before you finish: save your change with `git diff > file`, `git checkout -- .` (do NOT use `git stash`: it is shared with other
workers' worktrees) to verify the demo passes without the change, re-apply with `git apply` and verify it fails
with it, and make sure `_out/patch.diff` is current.  Leave the worktree with your change applied.
Reply with a short summary (mechanism, what it needs, suite results).
"""
open(os.path.join(wt, '_TASK.md'), 'w').write(txt)
print(wt)
