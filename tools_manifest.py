#!/usr/bin/env python3
"""Regenerates /verif/MANIFEST.json from the table below (kept next to the driver's PLAN)."""
import json, subprocess

hook_commit = subprocess.run(["git", "-C", "/repo", "log", "--format=%h", "-1", "--", "verif_hooks.go"], capture_output=True, text=True).stdout.strip()

ENGINE = "container-tree engine"
NOTE = ("Held on the generated cases only (counts and samples are in the evidence file). Trusted: the harness's reference model, "
        "value layer, register parser and handle discipline R1/R2 (DESIGN.md 3 and 8), rapid's generators, the Go toolchain.")

C = {
 "C01": ("exploration", "model-based stateful PBT (rapid) against a Go-slice reference model, compared after every operation",
         "Generated array histories (append/insert/set/remove/get/pop/type change/bulk ops, invalid-index variants, nested containers, reopen/evict) over slab sizes 256..32768 are executed on the library and on a slice model; every returned element, previous element, count, type and error class is compared after each step and the root is reopened by its identifier at the end."),
 "C02": ("exploration", "model-based stateful PBT (rapid) against a Go-map reference model, compared after every operation",
         "Same as C01 for ordered maps: set/get/has/remove/pop/type change/bulk ops, absent-key variants (KeyNotFoundError, user category), keys and values of every size class incl. externalised keys and nested containers, compared with a dictionary keyed by canonical key text."),
 "C03": ("exploration", "stateful PBT with a recording ledger: write-log silence between commits, fresh-storage reload at every commit and crash point",
         "Histories over 1-3 roots (two owners plus a temporary-address container) with generated commit / crash markers: after every step the ledger's write log must not have grown since the last commit; at each commit a brand-new storage over the registers must reproduce the model and the register set must equal the slabs reachable from the live roots (handed-back containers are kept and later disposed of, some by identifier without loading); at crash points a new storage over a copy of the ledger must equal the model snapshot of the last commit; no zero-address register may ever be written."),
 "C04": ("exploration", "metamorphic PBT: same history under 1/N/64 workers, repeated, order-relaxed commit, and a second OS process (other toolchain in thorough); byte-identical registers and ordered write log",
         "Each generated multi-owner history is run five times in-process (worker counts, repetition for pool/map-order effects, order-relaxed commit) and its register digest is compared with a second OS process (GOMAXPROCS=1; go1.26.8 build in the thorough tier) that regenerates the same case; the deterministic commit's write log must be strictly ascending in (owner, index) and identical across runs, the relaxed commit must write the same set; an epilogue commit that fails in an encoder must leave the same registers under every worker count."),
 "C05": ("exploration", "stateful PBT with an independent structural oracle over raw register bytes plus the in-repo verifiers",
         "After every step every reachable slab is encoded and parsed by the harness's own register parser: size band (<=1.5x, non-root >= half), per-element limits, >=2 elements in an over-full slab, >=2 children in an index root, parent header copies (size, count, first digest) equal the children's own data, sibling links equal index order, digests sorted and unique; VerifyArray/VerifyMap run in addition. Bulk operations (bursts of single removals that take away 50-99 % of a container, growth bursts, bulk overwrites) are checked DURING the burst, so that transient violations between two repairs are seen; a sixth of the cases runs at an arbitrary slab size."),
 "C06": ("exploration", "stateful PBT with a byte-accounting oracle: reported size vs. length of the written register",
         "For every reachable slab after every step: len(register) minus root extra data minus inlined extra data (+16 when a non-root data slab omits its sibling link) must equal ByteSize() (<= for compact composite maps); every array element's reported size must equal its encoded length; the decoded register must report the same size; Verify*Serialization run at commits."),
 "C07": ("exploration", "round-trip PBT: encode/decode/encode of every live slab and committed register, content equality through the public surface, header flags vs. content",
         "Every live slab after every step and every committed register at every commit: decode+encode reproduces the bytes, the decoded slab equals the original (type, size, printed form, recursive child storables, extra data; relaxed to key-value multisets for compact maps), and the raw-header predicates (root, has-pointers, size-limited) agree with the slab's content."),
 "C08": ("exploration", "metamorphic PBT: one history under six commit/evict/reopen schedules, equal results and byte-identical final ledgers",
         "Each generated history is executed under: its generated schedule, never-until-the-end, reopen after every op, commit every 3, evict every 2, reopen every 4 with the order-relaxed commit; per-op results and the model must agree under all, structure must verify, and (without composite maps) final registers must be byte-identical."),
 "C09": ("exploration", "stateful PBT with reachability oracle: storage contents == slabs reachable from live roots, after every step and after emptying",
         "Every handed-back value is disposed of as Cadence does; after every step the set of slabs held by the storage (write set, cache, ledger) must equal the set reached from the live roots by the harness's own walk (no leak, no dangling or double reference, one owner per tree), CheckStorageHealth must agree, and after emptying all containers exactly one register per root may remain."),
 "C10": ("exploration", "model-based stateful PBT on a container tree with long-lived handles; inline rule and identifier stability checked from the parent's slab",
         "Depth <=3 container trees are mutated through child / grandchild handles obtained on insertion, lookup and mutable iteration while parents are restructured; after every step the whole tree is read through the root and compared, ancestors are verified, each child must be inlined exactly when it is one slab that fits its slot (array element limit or map element limit minus key), value ids never change, and commits are checked from a fresh storage."),
 "C11": ("exploration", "model-based stateful PBT with detached containers and stale handles; byte-wise isolation of all other trees",
         "Removed / overwritten children are kept with their live handles and mutated further; before and after each such mutation every slab of every other tree is encoded and must be byte-identical; the former parent's content, size bookkeeping (size oracle + verifiers) and persisted form are checked after each step; detached containers are reloaded by id, re-attached elsewhere or disposed of, with health checked throughout."),
 "C12": ("exploration", "model-based stateful PBT with generated adversarial digesters (1-4 levels, tiny alphabets) and collision limits 0..255",
         "Root maps use generated digest functions colliding on any subset of levels; set/update/remove histories must keep dictionary semantics, canonical iteration order, valid structure (incl. inline and external collision groups and their collapse); an insert is expected to be refused with a fatal CollisionLimitError exactly when the number of entries with distinct second-level digests under its first-level digest exceeds the limit, leaving content and pending-slab count unchanged; updates are always accepted."),
 "C13": ("exploration", "differential PBT over all iterator flavours against the model's canonical order, with in-flight mutation and generated partial loading",
         "On intermediate and final states of generated histories every enumeration API (read-only, mutable, ranges incl. invalid bounds, keys/values, loaded-values, all explicit iterator objects incl. range and loaded-value iterators, the mutation-callback variants, PopIterate order) must yield the model's elements once in canonical order (digests recomputed by the harness); the final state is iterated while current elements are overwritten and nested children mutated, and opened in a new storage with a generated subset of slabs loaded, where the loaded-value iterator must yield exactly the elements whose slabs are loaded; on a scratch storage a container obtained from any read-only flavour must refuse mutation with a fatal ReadOnlyIteratorElementMutationError and report it to the mutation callback."),
 "C14": ("fault_enumeration", "fault enumeration inside generated histories: every single failing ledger write position, pairs/triples, retry to convergence",
         "For each generated history a fault-free run fixes the reference registers; then every single ledger write/delete position (stratified above a cap) and pairs (exhaustive for <=12 writes) / triples are failed: the commit must return an external error, keep pending changes, reads must still equal the model, and retrying must end byte-identical to the reference, for both commit flavours and several worker counts."),
 "C15": ("exploration", "state-machine PBT of PersistentSlabStorage against a three-map overlay model, plus bounded-exhaustive enumeration of short op sequences",
         "Store/remove/retrieve/retrieve-if-loaded/cache-bypassing retrieve/both commits (with injected ledger failures)/drop deltas/drop cache/batch preload (below and above the parallel threshold)/re-creation over 4 identifiers (two owners + temporary) and 3 slab versions; after every step all observers and the ledger are compared with the model; all sequences up to length 4 (5 in thorough) over an 18-op alphabet are enumerated exhaustively in addition to random sequences up to 60 (150) ops."),
 "C16": ("exploration", "concurrency PBT under the Go race detector: concurrent histories vs. sequential twins, N-worker commit/preload vs. 1 worker",
         "Up to 16 goroutines each run a generated history on their own storage (default digester pool, encoder buffer pools, parallel commits inside) with scheduling jitter and varied GOMAXPROCS; each must end with the same register digest and results as when run alone; a >=10-slab write set is committed and preloaded with 2..64 workers (also with injected ledger and encoder failures, after which the deterministic commit must leave the same registers and error class as with 1 worker) and compared with 1 worker; any race report or crash of a worker goroutine is a violation. The scheduler is not controlled: interleavings are sampled."),
 "C17": ("exploration", "PBT over element streams and sources with the engine as validity oracle",
         "NewArrayFromBatchData over generated size programs (constant, alternating tiny/maximal, ramps, huge tail, exact-fill with underfull last leaf/index), NewMapFromBatchData from generated source maps (valid, unsorted, duplicate streams), byte slice<->array conversion around the single-slab threshold, and CanCopy/CopyNonRefSimple on every container of generated trees; results must equal their source, pass every structural oracle, keep working under further operations, and stay intact when the source is mutated or disposed of."),
 "C18": ("exploration", "metamorphic PBT (history with vs. without rejected requests) plus exhaustive failure injection into caller-supplied components during lookups",
         "Generated rejected requests (out-of-range get/set/insert/remove incl. large values and indices beyond 2^32 whose low bits are a valid index, the extremes, invalid ranges through every range flavour, absent keys, collision-limit refusals, undefined identifiers, opening non-root slabs) are interleaved into a history: each must return its specific error with the documented category and leave pending-slab count and all slabs byte-identical, and the final registers must equal those of the history without them; for lookups and iteration on the final state every call of the comparator, hash-input provider and ledger read is failed in turn and must surface as an external error wrapping the component's error."),
 "C19": ("exploration", "structured mutation fuzzing (rapid) of valid registers of every slab kind and both format versions; coverage-guided native fuzzing in the thorough tier",
         "Inputs are mutations (truncate, bit flip, byte set, splice, insert, duplicate, CBOR-head and length-field edits, widened integers, coordinated count edits, length-consistent resizing of byte / text strings) of registers harvested from engine runs and of the repository's own v0/v1 test vectors; the target calls the three header predicates, DecodeSlab (with a permissive and a strict element decoder) and on success ByteSize / recursive ChildStorables / String; a panic, a hang (10 s watchdog) or allocation beyond 4 MiB + 2 KiB per input byte is a violation."),
 "C20": ("fault_enumeration", "fault enumeration over healthy storages from generated histories: every single-slab corruption of each kind at every slab",
         "For each committed state the health check must pass and return exactly the roots and GetAllChildReferences must equal the harness's walk; then every non-root slab is deleted (register deleted, removed through the storage, absent from a BasicSlabStorage), referenced a second time and referenced from another owner, unreferenced slabs are added, and roots are nested under foreign owners (another account, or the temporary address at either end): the check must reject each, and the broken reference must be reported exactly (also when the slab was only removed through the storage and is still cached)."),
}

checks = []
for pid in sorted(C):
    level, tech, text = C[pid]
    checks.append({
        "property_id": pid,
        "quick_cmd": "./check %s --tier quick" % pid,
        "thorough_cmd": "./check %s --tier thorough" % pid,
        "evidence_file": "/verif/evidence/%s.json" % pid,
        "replay_cmd_template": "./check --replay {path}",
        "engine": ENGINE if pid not in ("C15", "C19") else ("storage overlay machine" if pid == "C15" else "decoder fuzz target"),
        "level_claimed": {"category": level, "text": text, "design_ref": "DESIGN.md section 5, " + pid},
        "level_note": NOTE,
        "technique": tech,
    })

m = {
    "version": 1,
    "setup_cmd": "./check --setup",
    "hooks": {
        "guard": "verif",
        "enable": "go test -tags verif in /verif/harness, whose go.mod replaces github.com/onflow/atree with /repo (current working tree)",
        "baseline_off_cmd": "cd /repo && GOFLAGS=-mod=mod GOPROXY=off go test -vet=off -count=1 -timeout 25m ./...",
        "source_commits": [hook_commit],
        "add_only": True,
    },
    "engines": [
        {"name": ENGINE, "path": "harness/engine*.go, model.go, oracle.go, regparse.go, iter.go, digest.go, gen.go",
         "serves_properties": [p for p in sorted(C) if p not in ("C15", "C19")],
         "kind_free_text": "interpreter of generated operation lists over the real library and a reference model, with independent structural / byte-level oracles"},
        {"name": "storage overlay machine", "path": "harness/c15.go", "serves_properties": ["C15"], "kind_free_text": "state machine over PersistentSlabStorage vs three-map model; bounded-exhaustive + random"},
        {"name": "decoder fuzz target", "path": "harness/c19.go", "serves_properties": ["C19"], "kind_free_text": "structured mutation (rapid) and native go fuzzing of DecodeSlab and header predicates"},
    ],
    "checks": checks,
    "notes": "All checks rebuild the harness against /repo's working tree with -tags verif. VERIF_SEED selects the rapid seeds (never 0). Exit 2 = inconclusive (build failure, timeout, degenerate generator), never reported as a violation; a panic on a goroutine executing library code that kills the test process is a violation (the running case is the replay). A quarter of the engine cases reach their registers through atree.LedgerBaseStorage. known_findings.json lists repaired defects (status fixed) and would list open ones.",
    "not_applicable": [],
}
json.dump(m, open("/verif/MANIFEST.json", "w"), indent=1)
print("checks:", len(checks))
