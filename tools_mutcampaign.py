#!/usr/bin/env python3
"""Systematic sensitivity campaign (development aid, not a registered check).

Generates first-order mutants of onflow/atree's non-test sources (relational / arithmetic / boolean operator
swaps, constant tweaks, statement deletions, error-category swaps), applies each in a scratch worktree of
/repo HEAD under /tmp (never in /repo), and runs the quick checks against it until one reports a violation.
Mutants that no check reports are then run against the repository's own suite; those that pass it too are the
interesting survivors (equivalent mutants or detection gaps) and are written to <out>/survivors.jsonl for triage.

usage: tools_mutcampaign.py --out DIR [--n 200] [--seed 1] [--workers 3] [--files a.go,b.go] [--scale 0.5]
                            [--ops rel,arith,bool,const,del,cat] [--suite]
"""
import argparse, json, os, random, re, shutil, subprocess, sys, threading, time, hashlib, queue

VERIF = os.path.dirname(os.path.abspath(__file__))
EXCLUDE = {"doc.go", "verif_hooks.go", "cbor_tag_nums.go", "array_verify.go", "map_verify.go",
           "array_serialization_verify.go", "map_serialization_verify.go", "array_dump.go", "map_dump.go",
           "array_slab_stats.go", "map_slab_stats.go"}
ORDER = ["C10", "C02", "C01", "C05", "C12", "C13", "C17", "C08", "C15", "C14", "C18", "C09", "C03", "C04", "C06",
         "C07", "C11", "C20", "C19", "C16"]

def go_env():
    env = dict(os.environ); env["GOFLAGS"] = "-mod=mod"; env["GOPROXY"] = "off"
    env.pop("GOSUMDB", None); env.pop("GOTOOLCHAIN", None)
    return env

REL = {" < ": [" <= "], " <= ": [" < "], " > ": [" >= "], " >= ": [" > "], " == ": [" != "], " != ": [" == "]}
ARITH = {" + ": [" - "], " - ": [" + "], "++": ["--"], " += ": [" -= "], " -= ": [" += "]}
BOOL = {" && ": [" || "], " || ": [" && "], "true": ["false"], "false": ["true"]}

def func_ranges(lines):
    """(start, end, name) of top-level funcs, by brace matching at column 0."""
    out = []; cur = None
    for i, l in enumerate(lines):
        if l.startswith("func "):
            m = re.match(r"func\s*(\([^)]*\)\s*)?([A-Za-z0-9_]+)", l)
            cur = [i, None, m.group(2) if m else "?"]
        if l.startswith("}") and cur:
            cur[1] = i; out.append(tuple(cur)); cur = None
    return out

def candidates(repo, files, ops):
    cands = []
    for fn in files:
        path = os.path.join(repo, fn)
        lines = open(path).read().split("\n")
        fr = func_ranges(lines)
        def fname(i):
            for s, e, n in fr:
                if s <= i <= e:
                    return n
            return None
        for i, l in enumerate(lines):
            st = l.strip()
            f = fname(i)
            if f is None or st.startswith("//") or not st:
                continue
            if "V0" in f or f in ("String", "Error", "PopulateSlabStats") or f.startswith("Dump") or f.startswith("Print"):
                continue
            code = l.split("//")[0]
            if '"' in code or "`" in code:
                codeq = re.sub(r'"[^"]*"', lambda m: "\x00" * len(m.group(0)), code)
            else:
                codeq = code
            def add(op, new):
                if new != l:
                    cands.append(dict(file=fn, line=i + 1, func=f, op=op, old=l, new=new))
            if "rel" in ops:
                for tok, reps in REL.items():
                    for m in re.finditer(re.escape(tok), codeq):
                        rest = codeq[m.end():m.end() + 4]
                        if rest.startswith("nil"):
                            continue
                        for r in reps:
                            add("rel", l[:m.start()] + r + l[m.end():])
            if "arith" in ops:
                for tok, reps in ARITH.items():
                    for m in re.finditer(re.escape(tok), codeq):
                        for r in reps:
                            add("arith", l[:m.start()] + r + l[m.end():])
            if "bool" in ops:
                for tok, reps in BOOL.items():
                    pat = re.escape(tok) if tok.startswith(" ") else r"\b" + tok + r"\b"
                    for m in re.finditer(pat, codeq):
                        for r in reps:
                            add("bool", l[:m.start()] + r + l[m.end():])
                m = re.match(r"^(\s*(?:\} else )?if )!([A-Za-z_][\w.]*(?:\([^()]*\))?) \{$", l)
                if m:
                    add("bool", m.group(1) + m.group(2) + " {")
            if "const" in ops:
                for m in re.finditer(r"(?<![\w.])(\d+)(?![\w.])", codeq):
                    v = int(m.group(1))
                    if v > 70000:
                        continue
                    for nv in ([v + 1] if v == 0 else [v - 1, v + 1]):
                        add("const", l[:m.start()] + str(nv) + l[m.end():])
            if "del" in ops:
                if re.match(r"^\s+[A-Za-z_][\w.]*\(.*\)\s*$", code) and not st.startswith(("return", "defer", "go ", "panic")):
                    add("del", "")
                elif re.match(r"^\s+[A-Za-z_]\w*(\.\w+)+(\[[^\]]*\])?\s*(=|\+=|-=|\|=)\s*[^=].*$", code) and not code.rstrip().endswith(("{", "(", ",")):
                    add("del", "")
                elif re.match(r"^\s+delete\(.*\)\s*$", code):
                    add("del", "")
            if "cat" in ops:
                for a, b in (("NewUserError(", "NewFatalError("), ("NewFatalError(", "NewUserError("),
                             ("wrapErrorfAsExternalErrorIfNeeded(", "wrapErrorAsFatalErrorIfNeeded2("),):
                    if a in code and "wrapErrorAsFatal" not in b:
                        add("cat", l.replace(a, b, 1))
    return cands

def sh(cmd, cwd, env=None, timeout=None):
    try:
        r = subprocess.run(cmd, cwd=cwd, env=env or go_env(), capture_output=True, text=True, timeout=timeout)
        return r.returncode, r.stdout + r.stderr
    except subprocess.TimeoutExpired:
        return -9, "timeout"

class Worker(threading.Thread):
    def __init__(self, idx, q, args, outf, lock):
        super().__init__(daemon=True)
        self.idx, self.q, self.args, self.outf, self.lock = idx, q, args, outf, lock
        self.wt = "/tmp/mutc_%d_%d" % (os.getpid(), idx)

    def run(self):
        rc, out = sh(["git", "-C", "/repo", "worktree", "add", "-q", "--detach", self.wt, "HEAD"], "/")
        if rc != 0:
            sys.stderr.write(out); return
        try:
            while True:
                try:
                    m = self.q.get_nowait()
                except queue.Empty:
                    break
                res = self.evaluate(m)
                with self.lock:
                    self.outf.write(json.dumps(res) + "\n"); self.outf.flush()
                    print("[%s] %s:%d %s %s -> %s %s" % (time.strftime("%H:%M:%S"), m["file"], m["line"], m["op"], m["func"], res["result"],
                                                        res.get("caught_by", "")), flush=True)
        finally:
            sh(["git", "-C", "/repo", "worktree", "remove", "--force", self.wt], "/")
            shutil.rmtree(self.wt, ignore_errors=True)

    def evaluate(self, m):
        wt = self.wt
        sh(["git", "checkout", "-q", "--", "."], wt)
        path = os.path.join(wt, m["file"])
        lines = open(path).read().split("\n")
        if lines[m["line"] - 1] != m["old"]:
            return dict(m, result="stale")
        lines[m["line"] - 1] = m["new"]
        open(path, "w").write("\n".join(lines))
        rc, out = sh(["go", "build", "."], wt, timeout=300)
        if rc != 0:
            return dict(m, result="nocompile")
        rc, out = sh(["go", "vet", "-copylocks=false", "."], wt, timeout=300)
        # build the harness once
        bdir = os.path.join(wt, ".vbuild"); shutil.rmtree(bdir, ignore_errors=True); os.makedirs(bdir)
        mod = open(os.path.join(VERIF, "harness", "go.mod")).read().replace("=> /repo", "=> " + wt)
        open(os.path.join(bdir, "alt.mod"), "w").write(mod)
        shutil.copyfile(os.path.join(VERIF, "harness", "go.sum"), os.path.join(bdir, "alt.sum"))
        binp = os.path.join(bdir, "harness.test")
        rc, out = sh(["go", "test", "-tags", "verif", "-c", "-o", binp, "-modfile=" + os.path.join(bdir, "alt.mod"), "."],
                     os.path.join(VERIF, "harness"), timeout=600)
        if rc != 0:
            return dict(m, result="harness-nocompile", detail=out[-500:])
        env = dict(os.environ)
        env.update(VERIF_REPO=wt, VERIF_PREBUILT=binp, VERIF_SCALE=str(self.args.scale), VERIF_SHARDS_OVERRIDE=str(self.args.shards),
                   VERIF_REPLAYS_OUT=os.path.join(bdir, "replays"), VERIF_EVIDENCE_OUT=os.path.join(bdir, "evidence"),
                   VERIF_SEED=str(self.args.vseed))
        t0 = time.time(); incon = []
        for p in self.args.checks:
            if p == "C16":
                binr = os.path.join(bdir, "harness_race.test")
                rc, out = sh(["go", "test", "-tags", "verif", "-race", "-c", "-o", binr, "-modfile=" + os.path.join(bdir, "alt.mod"), "."],
                             os.path.join(VERIF, "harness"), timeout=900)
                if rc == 0:
                    env["VERIF_PREBUILT_RACE"] = binr
            try:
                r = subprocess.run([os.path.join(VERIF, "check"), p, "--tier", "quick"], cwd=VERIF, env=env, capture_output=True, text=True, timeout=1500)
                rc, out = r.returncode, r.stdout + r.stderr
            except subprocess.TimeoutExpired:
                rc, out = 2, "timeout"
            if rc == 1:
                mf = re.search(r"^failure: (.*)$", out, re.M)
                return dict(m, result="caught", caught_by=p, failure=(mf.group(1)[:300] if mf else ""), secs=round(time.time() - t0))
            if rc == 2:
                incon.append(p)
        res = dict(m, result="survived", inconclusive=incon, secs=round(time.time() - t0))
        shutil.rmtree(bdir, ignore_errors=True)
        rc, diff = sh(["git", "diff"], wt)
        pdir = os.path.join(self.args.out, "patches"); os.makedirs(pdir, exist_ok=True)
        res["patch"] = os.path.join(pdir, "%s_%d_%s.diff" % (m["file"], m["line"], hashlib.sha1(m["new"].encode()).hexdigest()[:6]))
        open(res["patch"], "w").write(diff)
        if self.args.suite:
            rc, out = sh(["go", "test", "-vet=off", "-count=1", "-timeout", "25m", "./..."], wt, timeout=1700)
            res["suite"] = "pass" if rc == 0 else "fail"
            if rc != 0:
                ff = re.findall(r"--- FAIL: (\S+)", out)
                res["suite_fail"] = ff[:5]
                res["result"] = "survived-suite-catches"
            sh(["git", "checkout", "-q", "--", "go.sum", "go.mod"], wt)
        return res

def main():
    ap = argparse.ArgumentParser()
    ap.add_argument("--out", required=True); ap.add_argument("--n", type=int, default=200); ap.add_argument("--seed", type=int, default=1)
    ap.add_argument("--workers", type=int, default=3); ap.add_argument("--files", default=""); ap.add_argument("--scale", type=float, default=0.5)
    ap.add_argument("--shards", type=int, default=4); ap.add_argument("--vseed", type=int, default=1)
    ap.add_argument("--ops", default="rel,arith,bool,const,del,cat"); ap.add_argument("--suite", action="store_true")
    ap.add_argument("--checks", default=",".join(ORDER)); ap.add_argument("--funcs", default="")
    a = ap.parse_args()
    a.checks = a.checks.split(",")
    os.makedirs(a.out, exist_ok=True)
    files = a.files.split(",") if a.files else sorted(f for f in os.listdir("/repo") if f.endswith(".go") and not f.endswith("_test.go") and f not in EXCLUDE)
    cands = candidates("/repo", files, set(a.ops.split(",")))
    if a.funcs:
        fs = set(a.funcs.split(","))
        cands = [c for c in cands if c["func"] in fs]
    done = set()
    resp = os.path.join(a.out, "results.jsonl")
    if os.path.exists(resp):
        for l in open(resp):
            d = json.loads(l); done.add((d["file"], d["line"], d["new"]))
    rnd = random.Random(a.seed)
    rnd.shuffle(cands)
    pick = [c for c in cands if (c["file"], c["line"], c["new"]) not in done][:a.n]
    print("candidates: %d, evaluating %d" % (len(cands), len(pick)), flush=True)
    q = queue.Queue()
    for c in pick:
        q.put(c)
    lock = threading.Lock()
    with open(resp, "a") as outf:
        ws = [Worker(i, q, a, outf, lock) for i in range(a.workers)]
        for w in ws: w.start()
        for w in ws: w.join()
    # summary
    rs = [json.loads(l) for l in open(resp)]
    from collections import Counter
    print(Counter(r["result"] for r in rs))
    with open(os.path.join(a.out, "survivors.jsonl"), "w") as f:
        for r in rs:
            if r["result"] == "survived":
                f.write(json.dumps(r) + "\n")

if __name__ == "__main__":
    main()
