#!/bin/bash
# runs every check of the given tier (default quick) once; prints one line per property
tier=${1:-quick}; seed=${2:-1}
for p in $(./check --list); do
  s=$(date +%s)
  out=$(VERIF_SEED=$seed ./check $p --tier $tier 2>&1); rc=$?
  echo "$p rc=$rc $(( $(date +%s)-s ))s $(echo "$out" | tail -1 | cut -c1-200)"
done
