#!/usr/bin/env python3
"""usage: tools_reeval.py [--checks C08,C10] [--own] <seeded id>... | all
Re-runs quick checks against seeded changes (scratch worktree of /repo HEAD, never /repo itself) and refreshes
`caught_by_quick` in seeded/<id>/meta.json for exactly the checks that were re-run (others keep their recorded result).
--own: re-run only the check of the property the change was written against."""
import json, os, subprocess, sys, re, glob

args = sys.argv[1:]
checks = None
own = False
ids = []
i = 0
while i < len(args):
    if args[i] == '--checks':
        checks = args[i + 1].split(','); i += 2
    elif args[i] == '--own':
        own = True; i += 1
    else:
        ids.append(args[i]); i += 1
if ids == ['all'] or not ids:
    ids = sorted(os.path.basename(os.path.dirname(p)) for p in glob.glob('/verif/seeded/*/meta.json'))
allc = subprocess.run(['/verif/check', '--list'], capture_output=True, text=True).stdout.split()
for sid in ids:
    d = '/verif/seeded/' + sid
    m = json.load(open(d + '/meta.json'))
    run = [m['breaks_property']] if own else (checks or allc)
    r = subprocess.run(['/verif/tools_mutant.sh', d + '/patch.diff'] + run, capture_output=True, text=True, cwd='/verif')
    out = r.stdout + r.stderr
    if 'PATCH DOES NOT APPLY' in out:
        print(sid, 'PATCH DOES NOT APPLY'); continue
    res = {}
    for line in out.split('\n'):
        mm = re.match(r'^(C\d\d) rc=(\d+)', line)
        if mm:
            res[mm.group(1)] = int(mm.group(2))
    cur = set(m.get('caught_by_quick', []))
    for c, rc in res.items():
        if rc == 1:
            cur.add(c)
        elif rc == 0:
            cur.discard(c)
    m['caught_by_quick'] = sorted(cur)
    m.setdefault('reevaluated', {}).update({c: ('caught' if rc == 1 else 'not caught' if rc == 0 else 'inconclusive') for c, rc in res.items()})
    json.dump(m, open(d + '/meta.json', 'w'), indent=1)
    with open(d + '/checks_quick.log', 'a') as f:
        f.write('\n--- re-evaluated: ' + ' '.join(run) + '\n' + out)
    print(sid, {c: rc for c, rc in res.items()}, '->', ' '.join(m['caught_by_quick']), flush=True)
