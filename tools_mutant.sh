#!/bin/bash
# usage: tools_mutant.sh <patch.diff> [property ids...]
# Evaluates the checks against a seeded change in a scratch worktree (never touches /repo's files).
set -u
patch=$(readlink -f "$1"); shift
props=${@:-$(cd /verif && ./check --list)}
wt=$(mktemp -d /tmp/mut_XXXXXX)
git -C /repo worktree add -q --detach "$wt" HEAD || exit 2
if ! git -C "$wt" apply "$patch"; then echo "PATCH DOES NOT APPLY"; git -C /repo worktree remove --force "$wt"; exit 2; fi
cd /verif
caught=""
for p in $props; do
  out=$(VERIF_REPLAYS_OUT=$wt/.replays VERIF_EVIDENCE_OUT=$wt/.evidence VERIF_REPO=$wt VERIF_SEED=${VERIF_SEED:-1} ./check $p --tier ${TIER:-quick} 2>&1); rc=$?
  line=$(echo "$out" | grep -m1 '^failure:' | cut -c1-220)
  echo "$p rc=$rc $line"
  [ $rc -eq 1 ] && caught="$caught $p"
done
echo "CAUGHT-BY:$caught"
[ -n "${KEEP_REPLAYS:-}" ] && mkdir -p "$KEEP_REPLAYS" && cp -r $wt/.replays/. "$KEEP_REPLAYS"/ 2>/dev/null
git -C /repo worktree remove --force "$wt"
rm -rf "$wt"
