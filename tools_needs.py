#!/usr/bin/env python3
"""Fills needs_short / origin_short in seeded/*/meta.json (texts condensed from the seeders' notes.md)."""
import json, os
N = {
 "C01-m1": "ArrayMetaDataSlab.rebalanceChildren no longer stores the lending LEFT sibling: committed multi-slab array, underflow repaired by LendToRight, then commit + reopen",
 "C01-m2": "decoded inlined arrays of one type share one ArrayExtraData: >=2 same-typed inlined child arrays in a slab that was committed and decoded again, then SetType on one child",
 "C03-m1": "rebalanceChildren does not store the parent index slab: a Set that shrinks an element so that a leaf underflows and a sibling lends, on a committed array, no later store of that index slab, reload + positional Get",
 "C03-m2": "MapMetaDataSlab.Set skips storeSlab when the child header is unchanged: new key into a >=3-level map or into an existing external collision group after a commit -> root Count not persisted",
 "C04-m1": "non-strict-weak-order comparator for the sorted commit keys: one commit touching >=2 owners where a higher address owns a lower slab index",
 "C04-m2": "shared type-info table built by ranging over a Go map: one slab with >=2 distinct type infos each used by >=2 inlined children -> bytes differ between replays",
 "C05-m1": "NewArrayFromBatchData loses the early exit after merging exactly two slabs: batch stream whose last leaf underflows and whose left sibling cannot lend -> index root with one child",
 "C05-m2": "PopIterate on an INLINED array records the standalone prefix size: nested inlined array emptied with PopIterate -> parent under-counts 12 bytes, registers beyond 1.5x",
 "C06-m1": "same mechanism as C05-m2 (size from getPrefixSize before inlined is set): PopIterate on an inlined child array",
 "C06-m2": "NewArrayFromBatchData adjusts the root prefix only when it never left the first slab: two leaves merged into one root data slab keep the 21-byte non-root prefix (+16 bytes reported)",
 "C07-m1": "singleElement.hasPointer ignores the key: a map data slab whose only references are externalised (oversized) keys is written with the has-pointers flag clear",
 "C07-m2": "type-info references recorded before the table is sorted: >=2 distinct shared type infos whose first-repeat order differs from byte order -> inlined children swap types after decode",
 "C08-m1": "mergeChildren does not store the slab that absorbed its right sibling when merging into the LEFT sibling: committed multi-slab array, underflow with no lender, then cache drop / reopen",
 "C08-m2": "decoded compact maps of one type share the digest slice: >=2 inlined composite maps with the same fields, parent decoded from the ledger, remove a field from one child",
 "C09-m1": "NewArrayFromBatchData stores a level's slabs before merging the last one: merged-away leaf stays in storage (orphan with nil elements)",
 "C09-m2": "NondeterministicFastCommit trims its id scratch slice at the wrong end: temp-address slab in the write set + an owned deletion in the same commit -> tombstones skipped, registers leak",
 "C10-m1": "Array.Set drops the tracked index of a WRAPPED child that is re-assigned to its own slot: Some(child) standalone, Set(idx, Some(child)), then shrink through the old handle -> never re-inlined",
 "C10-m2": "OrderedMap.PopIterate notifies the parent only when inlined: nested map in its own slab(s) emptied with PopIterate stays a separate slab",
 "C11-m1": "uninlineStorableIfNeeded returns no value id for a wrapped, already-standalone child: Some(child) not inlined, removed/overwritten in an ARRAY parent, stale index entry breaks the next Append or a shrink of the detached child (NOTE: the repository's randomised suite failed once in two runs with this change)",
 "C11-m2": "map parent updater skips the is-this-still-my-child check for inlined children: child detached from a map, re-attached elsewhere through ANOTHER handle (inlined there), then mutated through the old handle -> former parent gets the key back",
 "C12-m1": "collision-limit fast path: a NEW key that collides on level 0 AND level 1 with an existing entry is accepted at the limit (needs >=2-level digests)",
 "C12-m2": "limit enforcement moved into inlineCollisionGroup.Set only: once the first-level group has spilled to an EXTERNAL slab nothing enforces the limit",
 "C13-m1": "MapMetaDataSlab.getElementAndNextKey fast path ignores index-slab children: mutable map iteration stops at the end of the first level-1 subtree of a >=3-level map",
 "C13-m2": "singleElements.Remove uses swap-delete: full-collision group of >=3 keys, remove one with >=2 later-inserted keys behind it -> insertion order lost in every iterator",
 "C14-m1": "sequential commit helper swallows a failed Store (shadowed err) and FastCommit uses it for 1 worker / 1 dirty slab: commit reports success although a write failed",
 "C14-m2": "order-relaxed commit: the SECOND failed deletion of one attempt is dropped from the write set: >=2 modified and >=2 deleted slabs, two failing deletions",
 "C15-m1": "NondeterministicFastCommit (<2 modified slabs path) passes a prefix with holes to commit(): temp-address entry pending + owned removal -> removal never written",
 "C15-m2": "FastCommit does its bookkeeping before baseStorage.Remove: a failing ledger delete is already gone from the write set",
 "C16-m1": "pooled element buffer returned undrained after a FAILED encode: another storage's next data-slab encode that draws the same pool entry writes a corrupt register",
 "C16-m2": "FastCommit returns an encode error while encoder goroutines are still reading slabs: caller mutating its containers right after the error races with them (>=2 workers)",
 "C17-m1": "copied map shares the digest slice (slices.Clip): CopyNonRefSimple of a map with >=2 entries, then Remove / non-tail insert on either map corrupts the other",
 "C17-m2": "NewMapFromBatchData returns the pooled digester before the collision branch uses it: needs GENUINE first-level collisions of the default digester (crafted CircleHash64 inputs)",
 "C18-m1": "ArrayDataSlab.Set checks the index after value.Storable(): rejected Set on a single-slab array with an oversized value leaves a StorableSlab / inlines a foreign child",
 "C18-m2": "externalCollisionGroup.Get checks !found before err: a failing ledger read of an external collision group is reported as a fatal slab-not-found instead of an external error",
 "C19-m1": "inlined compact map value count checked against the attacker-controlled Count field: two coordinated edits (Count in tag-249 extra data and the value array of a tag-252 element) -> index out of range",
 "C19-m2": "v1 array index slab: minimum-length check moved before the extra data is consumed: root index register truncated inside the 10-byte address/count prefix -> slice out of range",
 "C20-m1": "references of one stored slab collected in a set: a slab referenced twice from WITHIN one slab (two elements, or element + inlined child) is no longer reported",
 "C20-m2": "order-relaxed commit (parallel path) drops the cache tombstone of removed slabs: >=2 modified + >=1 removed cached slab in one commit -> stale slab visible again on the same storage",
 "C02-m1": "map parent updater no longer checks the value id before re-storing a child: child A under k, k overwritten by B, A mutated through its old handle -> parent[k] silently becomes A again",
 "C02-m2": "OrderedMap.set installs the child callback only for NEW keys: existing key overwritten with a fresh container that is then mutated through the handle passed to Set",
}

N.update({
 "C16-m1": "pooled element buffer returned undrained after a FAILED array-slab encode: another storage's next data-slab encode that draws the same pool entry writes a corrupt register",
 "C16-m2": "FastCommit returns an encode error while encoder goroutines are still reading slabs: caller mutating its containers right after the error races with them (>=2 workers)",
 "C07-m4": "type-info reference index read from the head byte only: a slab whose shared type-info table has more than 24 entries (>=26 types each used twice) decodes references >=24 as 24",
 "C01-m3": "ArrayMetaDataSlab.Split takes the left count from the wrong cumulative slot when the child count is even: index slab splitting with an even number of children (slab sizes 300, 768, 2000 ...) -> positional access off by one child",
 "C02-m3": "singleElement.Remove skips the key comparison for externalised keys: Remove of an ABSENT key whose digests equal those of a stored entry with an oversized key deletes that entry",
 "C02-m4": "basicDigester.Reset keeps the BLAKE3 digests: default digester, genuine first-level collisions (crafted hash inputs), pool turnover between filing a key and looking it up",
 "C03-m3": "FastCommit skips the ledger delete of removed slabs that are not in the read cache: slab removed by identifier without having been loaded (after DropCache / in a fresh storage), then commit",
 "C04-m3": "stale 'BLAKE3 computed' flag on pooled digesters: default digester + first-level collisions; deeper digests are 0 or real depending on pool reuse -> bytes differ between replays",
 "C06-m3": "StorableSlab caches its size without the 2-byte head when created (correct when decoded): any externalised large value reports 2 bytes less than written until reloaded",
 "C06-m4": "GetUintCBORSize(2^32-1) returns 9 instead of 5: a uint element / key exactly equal to 4294967295 sized through the library helper",
 "C09-m3": "external collision groups declared copyable: CopyNonRefSimple of a single-slab map holding an external collision group -> the group slab is referenced by two roots",
 "C09-m4": "ByteSliceToByteArray creates the root before it knows the elements fit: estimate says one slab, real sizes do not -> falls back to the bulk constructor and leaves an orphan empty root",
 "C10-m3": "MapDataSlab.Inlinable uses < instead of <=: nested MAP whose inlined size equals the slot limit exactly",
 "C10-m4": "inline collision group spills to an external slab only on inserts: colliding keys whose VALUES grow in place (child containers notifying the parent) past the element limit",
 "C05-m3": "ByteSliceToByteArray fast path no longer re-checks the real size: estimate low by more than 1.5x -> single root data slab far beyond 1.5x the slab size",
 "C05-m4": "ArrayMetaDataSlab.Set repairs an underflowing child only if it is a data slab: >=3-level array, second-level index slab at its minimum child count, shrinking Set that makes a leaf merge",
 "C11-m3": "two cooperating edits: wrapped standalone child keeps its index entry after detach AND the array parent updater trusts the index map: stale handle shrinks the detached child -> overwrites whatever sits at the old index",
 "C15-m3": "RetrieveIfLoaded treats a pending removal as 'no delta' and falls through to the read cache: committed+cached slab, Remove without commit, RetrieveIfLoaded",
 "C15-m4": "sequential commit path keeps an existing cache entry instead of the committed slab: older version cached, a different slab object stored under the same id, order-relaxed commit with <2 modified slabs",
 "C16-m3": "failed MAP-slab encode returns the pooled buffer dirty (element not first in the slab fails): another storage's next encode is corrupted",
 "C18-m3": "SlabIDStorable.StoredValue checks !found before err: a failing ledger read of a referenced slab (large value, standalone child, externalised key) is reported as fatal slab-not-found",
 "C19-m3": "type-info reference index converted to int before the bounds check: 8-byte index with the top bit set (d8 f6 1b 80 ..) -> negative index panic",
 "C19-m4": "v1 map index slab: minimum-length check moved before the extra data: root map index register truncated inside the 10-byte address/count prefix",
})

for id_, txt in N.items():
    p = '/verif/seeded/%s/meta.json' % id_
    if not os.path.exists(p):
        continue
    m = json.load(open(p))
    m['needs_short'] = txt
    m['needs_to_manifest'] = txt + " (details: notes.md)"
    m['origin_short'] = 'sub-agent'
    if id_ == 'C11-m1':
        m['confirmed']['repository_suite_passes_with_change'] = "1 of 2 runs (the randomised suite caught it once)"
    json.dump(m, open(p, 'w'), indent=1)
print('ok')
