#!/usr/bin/env python3
"""Extracts []byte{...} literals (hex bytes with comments) from the repository's *_test.go
files: they are valid registers of both format versions and seed the C19 corpus."""
import re, sys, os, hashlib, glob
out = sys.argv[1]
os.makedirs(out, exist_ok=True)
n = 0
for path in sorted(glob.glob('/repo/*_test.go')):
    src = open(path, errors='replace').read()
    nocom = re.sub(r'//[^\n]*', '', src)
    # innermost brace blocks made only of byte tokens
    for m in re.finditer(r'\{([^{}]*)\}', nocom):
        body = m.group(1)
        toks = [t.strip() for t in body.split(',') if t.strip()]
        if len(toks) < 4 or not all(re.fullmatch(r'0x[0-9a-fA-F]{1,2}', t) for t in toks):
            continue
        b = bytes(int(t, 0) for t in toks)
        if len(b) > 4096:
            continue
        v = b[0] >> 4
        if v > 1:
            continue
        h = hashlib.sha1(b).hexdigest()[:12]
        open(os.path.join(out, 'repo-%s' % h), 'wb').write(b)
        n += 1
print(n, 'literals')
