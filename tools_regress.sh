#!/bin/bash
# Replays the cases on which the harness itself once raised a false alarm (or met a now-excluded known finding):
# each must pass on the unchanged tree.  VERIF_TIER=thorough is needed for the two cases found by the thorough tier.
cd /verif
rc=0
for f in regress/false_alarms/*.json; do
  out=$(VERIF_TIER=thorough ./check --replay $f 2>&1 | tail -1)
  echo "$f: $out"
  echo "$out" | grep -q "replay passes" || rc=1
done
exit $rc
